------------------------------- MODULE CertCommit -------------------------------
(* Implementation-shaped specification of the life of one certificate in the aggsender (C10):

     Build   flows.baseFlow.BuildCertificate (+ AggchainProverFlow.BuildCertificate attaching the proof data)
     Sign    PPFlow.signCertificate / AggchainProverFlow.signCertificate: h = PPHashToSign / FEPHashToSign of the
             certificate as it is at that moment, the signer signs h, the signature is attached afterwards
     Send    AgglayerGRPCClient.SendCertificate: the protobuf message w
     Store   aggsender.sendCertificate: json.Marshal(certificate) -> signed_certificate column (+ header columns);
             s = what json.Unmarshal gives back

   A certificate is a flat map from the field keys of CertCommitMatrix to abstract values (all strings, so that TLC can
   compare any two of them).  The commitments are written as the tuples of exactly the values the code hashes, in the
   code's order, after the code's normalisations (nil amount = 0, empty metadata = hash of nothing, rollup index dropped
   when the mainnet flag is set); a keccak over a byte layout is injective in the layout's parts, so two commitments are
   equal iff the tuples are.  The details that matter are the ugly ones:
     * BridgeExit.Hash() replaces a nil amount by 0 IN PLACE: it runs on rollup claims during Build (CalculateRoot of
       the leaf) and on every imported exit during the FEP Sign; plain bridge exits keep their nil until somebody asks
       for the identity - so the wire carries "absent" for some nil amounts and 0 for others
     * the wire carries no amount at all for nil, no metadata for empty, the leaf type shifted by one, the global index
       as one 32-byte number (rollup bits zero on mainnet claims)
     * the JSON carries "<nil>" for a nil amount (read back as nil), null for empty metadata, the leaf type by name,
       the claim under a key named after its kind, custom_chain_data / l1_info_tree_leaf_count only when non-empty
   The invariants are the property (C10) on this design, plus the exactness of the coverage matrix against the
   commitment functions (a covered field changes the commitment, an uncovered one does not).

   The shape of the certificate is chosen in Init, so one TLC run covers the whole space of the .cfg.
*)
EXTENDS CertCommitMatrix, TLC, Json

CONSTANTS Schemes,        \* subset of {"pp", "fep"}
          AmtClasses,     \* subset of {"nil", "zero", "one", "max"}
          MetaClasses,    \* subset of {"empty", "b32"}   (the bridge's / claim's raw metadata)
          LeafTypes,      \* subset of {"asset", "message"}
          GIParts,        \* subset of {"z", "lo", "hi"}   leading-zero classes of a 4-byte part of the global index
          HeightClasses,  \* subset of {"h0", "h1", "hbig"}
          ParamClasses,   \* subset of {"zero", "rand"}    aggchain params (FEP)
          Mode            \* "product": every pair (exit list, imported list); "cover" / "coverfull": one list varies, the
                          \* other is a default (resp. a default or empty); "top": default / empty lists only

VARIABLES scheme, hc, pc, exA, imA,      \* the shape (constant along a behaviour)
          stage,                         \* "init" -> "built" -> "signed" -> "sent" -> "stored"
          cert,                          \* the certificate object in memory: [ne, kinds, f]
          h,                             \* the hash handed to the signer
          w,                             \* the wire message (a map over wire keys)
          s,                             \* the certificate read back from the stored JSON
          hdr                            \* the header columns stored next to it

vars == <<scheme, hc, pc, exA, imA, stage, cert, h, w, s, hdr>>

Signer == "signer"
None   == "-"

-----------------------------------------------------------------------------
(* shapes *)
ExitAttr == [amt : AmtClasses, meta : MetaClasses, leaf : LeafTypes]
ImpAttr  == [kind : {"mainnet"}, amt : AmtClasses, meta : MetaClasses, leaf : LeafTypes, r : {"z"}, l : GIParts]
       \cup [kind : {"rollup"},  amt : AmtClasses, meta : MetaClasses, leaf : LeafTypes, r : GIParts, l : GIParts]

NextAmt(a)  == CASE a = "nil" -> "zero" [] a = "zero" -> "one" [] a = "one" -> "max" [] OTHER -> "nil"
NextMeta(m) == IF m = "empty" THEN "b32" ELSE "empty"
NextLeaf(t) == IF t = "asset" THEN "message" ELSE "asset"
NextPart(p) == CASE p = "z" -> "lo" [] p = "lo" -> "hi" [] OTHER -> "z"
(* the companion of an element in a two-element list: every class moves on by one, the claim kind flips *)
RotE(a) == [amt |-> NextAmt(a.amt), meta |-> NextMeta(a.meta), leaf |-> NextLeaf(a.leaf)]
RotI(a) == [kind |-> IF a.kind = "mainnet" THEN "rollup" ELSE "mainnet", amt |-> NextAmt(a.amt), meta |-> NextMeta(a.meta),
            leaf |-> NextLeaf(a.leaf), r |-> IF a.kind = "mainnet" THEN NextPart(a.l) ELSE "z", l |-> NextPart(a.l)]

ExitLists == {<<>>} \cup { <<a>> : a \in ExitAttr } \cup { <<a, RotE(a)>> : a \in ExitAttr }
ImpLists  == {<<>>} \cup { <<a>> : a \in ImpAttr }  \cup { <<a, RotI(a)>> : a \in ImpAttr }
DefExits  == << [amt |-> "one", meta |-> "b32", leaf |-> "asset"] >>
DefImps   == << [kind |-> "mainnet", amt |-> "one", meta |-> "empty", leaf |-> "message", r |-> "z", l |-> "lo"] >>

Corners == { <<DefExits, DefImps>>, <<DefExits, <<>> >>, << <<>>, DefImps>>, << <<>>, <<>> >> }
Shapes ==
  CASE Mode = "product"   -> { <<e, i>> : e \in ExitLists, i \in ImpLists }
    [] Mode = "cover"     -> { <<e, DefImps>> : e \in ExitLists } \cup { <<DefExits, i>> : i \in ImpLists } \cup Corners
    [] Mode = "coverfull" -> { <<e, DefImps>> : e \in ExitLists } \cup { <<DefExits, i>> : i \in ImpLists }
                             \cup { <<e, <<>> >> : e \in ExitLists } \cup { << <<>>, i>> : i \in ImpLists }
    [] OTHER              -> Corners      \* "top": the certificate-level classes vary

-----------------------------------------------------------------------------
(* values *)
HeightVal(c) == CASE c = "h0" -> "0" [] c = "h1" -> "1" [] OTHER -> "72623859790382856"
AmtOf(c)     == CASE c = "nil" -> "nilamt" [] c = "zero" -> "0" [] c = "one" -> "1" [] OTHER -> "max"
PartOf(c)    == CASE c = "z" -> "0" [] c = "lo" -> "1" [] OTHER -> "4294967295"
MetaOf(c)    == IF c = "empty" THEN "nometa" ELSE "k"        \* convertBridgeMetadata: empty -> nil, else keccak (32 bytes)
Bool(b)      == IF b THEN "true" ELSE "false"

(* the value as the hash functions see it *)
AmtVal(v)  == IF v = "nilamt" THEN "0" ELSE v                \* BridgeExit.Hash: nil amount -> 0
MetaVal(v) == IF v = "nometa" THEN "emptyhash" ELSE v        \* BridgeExit.Hash: empty metadata -> keccak of nothing

(* a different value of the same field (a single-field perturbation changes the VALUE: nil -> 0 is no change) *)
PV(v) == CASE v = "nilamt" -> "1" [] v = "0" -> "1" [] v = "1" -> "0" [] v = "max" -> "max-1" [] v = "nometa" -> "k"
           [] v = "true" -> "false" [] v = "false" -> "true" [] v = "asset" -> "message" [] v = "message" -> "asset"
           [] OTHER -> "~"

Kinds(im) == [i \in 1..Len(im) |-> im[i].kind]
FieldKeys(sch, ne, kinds) == { k \in KeysOf(sch, ne, kinds) : ~IsStruct(k) }

(* baseFlow.BuildCertificate, getBridgeExits, getImportedBridgeExits *)
BuildValue(sch, k, ex, im) ==
  LET g == k[1]  i == k[2]  n == k[3] IN
  CASE g = "top" ->
         (CASE n = "height" -> HeightVal(hc)
            [] n = "prev_ler" -> "p"
            [] n = "new_ler" -> IF Len(ex) = 0 THEN "p" ELSE "q"      \* no bridge exits: new LER = previous LER
            [] n = "custom_chain_data" -> IF sch = "fep" THEN "v" ELSE "none"
            [] OTHER -> "v")
    [] g = "agg" ->
         (CASE n = "kind" -> IF sch = "fep" THEN "proof" ELSE "none"   \* PP: AggchainData is nil until signed
            [] n = "signature" -> "unsigned"
            [] n = "params" -> pc
            [] OTHER -> "v")
    [] g = "exit" ->
         (CASE n = "leaf_type" -> ex[i].leaf
            [] n = "amount" -> AmtOf(ex[i].amt)
            [] n = "metadata" -> MetaOf(ex[i].meta)
            [] OTHER -> "v")
    [] OTHER ->
         (CASE n = "be.leaf_type" -> im[i].leaf
            \* rollup claims: tree.CalculateRoot(ibe.BridgeExit.Hash(), ...) has already replaced a nil amount by 0
            [] n = "be.amount" -> IF im[i].kind = "rollup" THEN AmtVal(AmtOf(im[i].amt)) ELSE AmtOf(im[i].amt)
            [] n = "be.metadata" -> MetaOf(im[i].meta)
            [] n = "gi.mainnet" -> Bool(im[i].kind = "mainnet")
            [] n = "gi.rollup" -> IF im[i].kind = "mainnet" THEN "0" ELSE PartOf(im[i].r)   \* DecodeGlobalIndex of a canonical value
            [] n = "gi.leaf" -> PartOf(im[i].l)
            [] n = "claim.kind" -> im[i].kind
            [] OTHER -> "v")

-----------------------------------------------------------------------------
(* the commitments, on a certificate c = [ne, kinds, f] *)
F(c, g, i, n) == c.f[<<g, i, n>>]

(* BridgeExit.Hash *)
ExitHash(c, i) == << F(c, "exit", i, "leaf_type"), F(c, "exit", i, "origin_network"), F(c, "exit", i, "origin_token"),
                     F(c, "exit", i, "dest_network"), F(c, "exit", i, "dest_address"), AmtVal(F(c, "exit", i, "amount")),
                     MetaVal(F(c, "exit", i, "metadata")) >>
ImpBEHash(c, i) == << F(c, "imp", i, "be.leaf_type"), F(c, "imp", i, "be.origin_network"), F(c, "imp", i, "be.origin_token"),
                      F(c, "imp", i, "be.dest_network"), F(c, "imp", i, "be.dest_address"), AmtVal(F(c, "imp", i, "be.amount")),
                      MetaVal(F(c, "imp", i, "be.metadata")) >>
(* bridgesync.GenerateGlobalIndex: the rollup index is not used when the mainnet flag is set *)
GIVal(c, i) == << F(c, "imp", i, "gi.mainnet"),
                  IF F(c, "imp", i, "gi.mainnet") = "true" THEN "0" ELSE F(c, "imp", i, "gi.rollup"),
                  F(c, "imp", i, "gi.leaf") >>
MP(c, i, p)  == << F(c, "imp", i, p[1]), F(c, "imp", i, p[2]) >>
Inner(c, i)  == << F(c, "imp", i, "claim.l1_leaf.ger"), F(c, "imp", i, "claim.l1_leaf.block_hash"), F(c, "imp", i, "claim.l1_leaf.timestamp") >>
PMer == <<"claim.proof_leaf_mer.root", "claim.proof_leaf_mer.siblings">>
PLer == <<"claim.proof_leaf_ler.root", "claim.proof_leaf_ler.siblings">>
PRer == <<"claim.proof_ler_rer.root", "claim.proof_ler_rer.siblings">>
PGer == <<"claim.proof_ger_l1root.root", "claim.proof_ger_l1root.siblings">>
(* ClaimFromMainnnet.Hash / ClaimFromRollup.Hash; L1InfoTreeLeaf.Hash is the hash of Inner only *)
ClaimHash(c, i) == IF c.kinds[i] = "mainnet" THEN << MP(c, i, PMer), MP(c, i, PGer), Inner(c, i) >>
                   ELSE << MP(c, i, PLer), MP(c, i, PRer), MP(c, i, PGer), Inner(c, i) >>
ImpHash(c, i)   == << ImpBEHash(c, i), ClaimHash(c, i), GIVal(c, i) >>

NI(c) == Len(c.kinds)

CommitPP(c)  == << "pp", F(c, "top", 0, "new_ler"), [i \in 1..NI(c) |-> GIVal(c, i)] >>
CommitFEP(c) == << "fep", F(c, "top", 0, "new_ler"), [i \in 1..NI(c) |-> << GIVal(c, i), ImpBEHash(c, i) >>],
                   << "le64", F(c, "top", 0, "height") >>,
                   IF F(c, "agg", 0, "kind") = "proof" THEN F(c, "agg", 0, "params") ELSE "emptyhash" >>
Commit(sch, c) == IF sch = "pp" THEN CommitPP(c) ELSE CommitFEP(c)

Id(c) == << "id", F(c, "top", 0, "network_id"), << "be64", F(c, "top", 0, "height") >>, F(c, "top", 0, "prev_ler"),
            F(c, "top", 0, "new_ler"), [i \in 1..c.ne |-> ExitHash(c, i)], [i \in 1..NI(c) |-> ImpHash(c, i)] >>

-----------------------------------------------------------------------------
(* the two codecs *)

(* SendCertificate: the certificate as a protobuf message.  Wire keys: the global index is ONE field. *)
WireKeys(c) == { k \in DOMAIN c.f : k[3] \notin {"gi.mainnet", "gi.rollup", "gi.leaf"} } \cup { <<"imp", i, "gi">> : i \in 1..NI(c) }
ToWire(c) ==
  [ne |-> c.ne, kinds |-> c.kinds,
   f |-> [k \in WireKeys(c) |->
     LET n == k[3] IN
     CASE n = "gi" -> GIVal(c, k[2])                                     \* common.BigToHash(GenerateGlobalIndex(...))
       [] n \in {"amount", "be.amount"} -> IF c.f[k] = "nilamt" THEN "absent" ELSE c.f[k]
       [] n \in {"metadata", "be.metadata"} /\ k[1] # "top" -> IF c.f[k] = "nometa" THEN "absent" ELSE c.f[k]
       [] n \in {"leaf_type", "be.leaf_type"} -> IF c.f[k] = "asset" THEN "LEAF_TYPE_TRANSFER" ELSE "LEAF_TYPE_MESSAGE"
       [] n = "custom_chain_data" -> IF c.f[k] = "none" THEN "empty" ELSE c.f[k]
       [] OTHER -> c.f[k]]]
(* the reading of the message on the other side *)
CertKeys(m) == { k \in DOMAIN m.f : k[3] # "gi" }
               \cup { <<"imp", i, "gi.mainnet">> : i \in 1..Len(m.kinds) } \cup { <<"imp", i, "gi.rollup">> : i \in 1..Len(m.kinds) }
               \cup { <<"imp", i, "gi.leaf">> : i \in 1..Len(m.kinds) }
FromWire(m) ==
  [ne |-> m.ne, kinds |-> m.kinds,
   f |-> [k \in CertKeys(m) |->
     LET n == k[3] IN
     CASE n = "gi.mainnet" -> m.f[<<"imp", k[2], "gi">>][1]
       [] n = "gi.rollup" -> m.f[<<"imp", k[2], "gi">>][2]
       [] n = "gi.leaf" -> m.f[<<"imp", k[2], "gi">>][3]
       [] n \in {"amount", "be.amount"} -> IF m.f[k] = "absent" THEN "nilamt" ELSE m.f[k]
       [] n \in {"metadata", "be.metadata"} /\ k[1] # "top" -> IF m.f[k] = "absent" THEN "nometa" ELSE m.f[k]
       [] n \in {"leaf_type", "be.leaf_type"} -> IF m.f[k] = "LEAF_TYPE_TRANSFER" THEN "asset" ELSE "message"
       [] n = "custom_chain_data" -> IF m.f[k] = "empty" THEN "none" ELSE m.f[k]
       [] OTHER -> m.f[k]]]

(* json.Marshal(certificate) with the MarshalJSON methods of BridgeExit, MerkleProof, Claim*, AggchainData* *)
ToJSON(c) ==
  [ne |-> c.ne, kinds |-> c.kinds,
   f |-> [k \in DOMAIN c.f |->
     LET n == k[3] IN
     CASE n \in {"amount", "be.amount"} -> IF c.f[k] = "nilamt" THEN "<nil>" ELSE c.f[k]     \* (*big.Int)(nil).String()
       [] n \in {"metadata", "be.metadata"} /\ k[1] # "top" -> IF c.f[k] = "nometa" THEN "null" ELSE c.f[k]
       [] n \in {"leaf_type", "be.leaf_type"} -> IF c.f[k] = "asset" THEN "Transfer" ELSE "Message"
       [] n = "custom_chain_data" -> IF c.f[k] = "none" THEN "omitted" ELSE c.f[k]
       [] OTHER -> c.f[k]]]
(* json.Unmarshal with the UnmarshalJSON methods *)
FromJSON(j) ==
  [ne |-> j.ne, kinds |-> j.kinds,
   f |-> [k \in DOMAIN j.f |->
     LET n == k[3] IN
     CASE n \in {"amount", "be.amount"} -> IF j.f[k] = "<nil>" THEN "nilamt" ELSE j.f[k]     \* strings.Contains(amount, "nil")
       [] n \in {"metadata", "be.metadata"} /\ k[1] # "top" -> IF j.f[k] = "null" THEN "nometa" ELSE j.f[k]
       [] n \in {"leaf_type", "be.leaf_type"} -> IF j.f[k] = "Transfer" THEN "asset" ELSE "message"
       [] n = "custom_chain_data" -> IF j.f[k] = "omitted" THEN "none" ELSE j.f[k]
       [] OTHER -> j.f[k]]]

-----------------------------------------------------------------------------
Init ==
  /\ scheme \in Schemes /\ hc \in HeightClasses
  /\ pc \in (IF scheme = "fep" THEN ParamClasses ELSE {None})
  /\ \E sh \in Shapes : exA = sh[1] /\ imA = sh[2]
  /\ (scheme = "pp" => Len(exA) + Len(imA) > 0)             \* PPFlow does not build empty certificates
  /\ stage = "init" /\ cert = None /\ h = None /\ w = None /\ s = None /\ hdr = None

Build ==
  /\ stage = "init" /\ stage' = "built"
  /\ cert' = [ne |-> Len(exA), kinds |-> Kinds(imA),
              f |-> [k \in FieldKeys(scheme, Len(exA), Kinds(imA)) |-> BuildValue(scheme, k, exA, imA)]]
  /\ UNCHANGED <<scheme, hc, pc, exA, imA, h, w, s, hdr>>

(* the FEP commitment hashes the bridge exit of every imported exit: their nil amounts become 0 in the object *)
AfterHashing(c) ==
  IF scheme = "pp" THEN c
  ELSE [c EXCEPT !.f = [k \in DOMAIN c.f |-> IF k[3] = "be.amount" THEN AmtVal(c.f[k]) ELSE c.f[k]]]

Sign ==
  /\ stage = "built" /\ stage' = "signed"
  /\ h' = Commit(scheme, cert)
  /\ cert' = LET c == AfterHashing(cert) IN
             [c EXCEPT !.f = [k \in DOMAIN c.f |->
                 CASE k = <<"agg", 0, "signature">> -> <<"sig", Signer, Commit(scheme, cert)>>
                   [] k = <<"agg", 0, "kind">> -> AggKind(scheme)
                   [] OTHER -> c.f[k]]]
  /\ UNCHANGED <<scheme, hc, pc, exA, imA, w, s, hdr>>

Send ==
  /\ stage = "signed" /\ stage' = "sent"
  /\ w' = ToWire(cert)
  /\ UNCHANGED <<scheme, hc, pc, exA, imA, cert, h, s, hdr>>

Store ==
  /\ stage = "sent" /\ stage' = "stored"
  /\ s' = FromJSON(ToJSON(cert))
  /\ hdr' = [height |-> F(cert, "top", 0, "height"), new_ler |-> F(cert, "top", 0, "new_ler"), prev_ler |-> F(cert, "top", 0, "prev_ler")]
  /\ UNCHANGED <<scheme, hc, pc, exA, imA, cert, h, w>>

Next == Build \/ Sign \/ Send \/ Store
Spec == Init /\ [][Next]_vars

-----------------------------------------------------------------------------
(* C10 on the design *)
Done == stage = "stored"

(* the field as the commitments see it *)
Norm(k, v) == IF k[3] \in {"amount", "be.amount"} THEN AmtVal(v) ELSE v

(* h = Commit_scheme(w) = Commit_scheme(s) *)
CommitAgree == Done => /\ h = Commit(scheme, FromWire(w)) /\ h = Commit(scheme, s)

(* Id(w) = Id(s) = Id(built) *)
IdAgree == Done => /\ Id(FromWire(w)) = Id(cert) /\ Id(s) = Id(cert)

(* every covered field arrives unchanged on the wire and in the stored copy (and in the header columns) *)
FieldsArrive == Done =>
  LET W == FromWire(w) IN
  /\ \A k \in { x \in CoveredKeys(scheme, cert.ne, cert.kinds) : ~IsStruct(x) } :
       /\ k \in DOMAIN W.f /\ k \in DOMAIN s.f
       /\ Norm(k, W.f[k]) = Norm(k, cert.f[k]) /\ Norm(k, s.f[k]) = Norm(k, cert.f[k])
  /\ W.ne = cert.ne /\ s.ne = cert.ne /\ W.kinds = cert.kinds /\ s.kinds = cert.kinds
  /\ hdr.height = F(cert, "top", 0, "height") /\ hdr.new_ler = F(cert, "top", 0, "new_ler") /\ hdr.prev_ler = F(cert, "top", 0, "prev_ler")

(* the signature that travels and is stored is the configured signer's signature over the commitment of what travels / is stored *)
SignatureOK == Done =>
  LET W == FromWire(w) IN
  /\ F(W, "agg", 0, "signature") = <<"sig", Signer, Commit(scheme, W)>>
  /\ F(s, "agg", 0, "signature") = <<"sig", Signer, Commit(scheme, s)>>

(* single-field perturbations of the certificate as the Agglayer reads it *)
Perturb(c, k) ==
  CASE k[3] = "n_exits"     -> [c EXCEPT !.ne = c.ne - 1]
    [] k[3] = "n_imps"      -> [c EXCEPT !.kinds = SubSeq(c.kinds, 1, Len(c.kinds) - 1)]
    [] k[3] = "order_exits" -> [c EXCEPT !.f = [x \in DOMAIN c.f |-> IF x[1] = "exit" THEN c.f[<<"exit", 3 - x[2], x[3]>>] ELSE c.f[x]]]
    [] k[3] = "order_imps"  -> c      \* handled by SwapImps below (the two elements may have different key sets)
    [] k = <<"agg", 0, "signature">> -> [c EXCEPT !.f[k] = "forged"]
    [] OTHER                -> [c EXCEPT !.f[k] = PV(c.f[k])]

(* swapping two imported exits: position i gets the fields of position 3 - i.  (A swap of two equal elements would change
   nothing; the generated pairs always differ: RotE / RotI move every class.) *)
SwapImps(c) ==
  LET kk == [i \in 1..2 |-> c.kinds[3 - i]]
      keys == { x \in DOMAIN c.f : x[1] # "imp" } \cup { <<"imp", 3 - x[2], x[3]>> : x \in { y \in DOMAIN c.f : y[1] = "imp" } }
  IN [ne |-> c.ne, kinds |-> kk, f |-> [x \in keys |-> IF x[1] = "imp" THEN c.f[<<"imp", 3 - x[2], x[3]>>] ELSE c.f[x]]]
P(c, k) == IF k[3] = "order_imps" THEN SwapImps(c) ELSE Perturb(c, k)

(* changing any covered field changes the commitment (resp. the identity), and the matrix is exact: a field it lists as
   not covered does not enter.  (One operator, so that TLC evaluates the re-assembled certificate once per state.) *)
PerturbOK(covered) ==
  Done =>
  LET Wc  == FromWire(w)
      c0  == Commit(scheme, Wc)
      i0  == Id(Wc)
      ks  == KeysOf(scheme, cert.ne, cert.kinds)
      ck  == { k \in ks : CoveredByCommit(scheme, k[1], k[3], KindAt(k, cert.kinds)) }
      ik  == { k \in ks : CoveredById(k[1], k[3], KindAt(k, cert.kinds)) }
  IN \A k \in { x \in ks : ~IsDiscr(x) } :
       LET pc0 == P(Wc, k) IN
       /\ (k \in ck) = covered => ((Commit(scheme, pc0) # c0) = covered)
       /\ (k \in ik) = covered => ((Id(pc0) # i0) = covered)
CoveredChanges == PerturbOK(TRUE)
UncoveredFree  == PerturbOK(FALSE)

ASSUME MatrixOK == MatrixConsistent

TypeOK == /\ stage \in {"init", "built", "signed", "sent", "stored"}
          /\ stage # "init" => DOMAIN cert.f = FieldKeys(scheme, cert.ne, cert.kinds)
          /\ Done => (DOMAIN FromWire(w).f = DOMAIN cert.f /\ DOMAIN s.f = DOMAIN cert.f)

-----------------------------------------------------------------------------
(* case export: one line per certificate shape with the single-field perturbations the matrix demands for it *)
KeyRec(k) == [g |-> k[1], i |-> k[2], n |-> k[3],
              c |-> k \in CommitKeys(scheme, Len(exA), Kinds(imA)), d |-> k \in IdKeys(scheme, Len(exA), Kinds(imA))]
Dump == stage = "init" =>
  PrintT(<<"CASE", ToJson([scheme |-> scheme, hc |-> hc, pc |-> pc, exits |-> exA, imps |-> imA,
                            perts |-> { KeyRec(k) : k \in { x \in KeysOf(scheme, Len(exA), Kinds(imA)) : ~IsDiscr(x) } }])>>)
=============================================================================
