------------------------------- MODULE StoreTrace -------------------------------
(* Property-level monitor for the store family (C01 C04 C07 C08 C14; bridge store), evaluated by TLC on traces recorded
   from the real bridgesync processor.  It knows nothing about frontiers, caches, transactions or SQL: it keeps the
   *surviving history* (`applied`: the blocks a node would have if failed attempts and reorged blocks had never
   happened) and says what every observable answer must be as a function of that history alone.

   Trace lines (ndjson, see harness/areas/store):
     {"ev":"reset","kind":K,"t":T}
     {"ev":"process","num":N,"evs":[{"t":"leaf","x":X,"dc":D}|{"t":"other"}],"fault":F,"res":"ok"|"err"|"incons"}
     {"ev":"reorg","from":B,"res":..,"rows":R}     {"ev":"restart"}
     {"ev":"snap","s":{last, roots, byler, bridges, proofs, twin, classes}}   the named answers after each operation

   Hash names (harness/names): [t |-> "s", h |-> H, ls |-> <<atoms>>] subtree of an append-only tree, "z" zero subtree,
   "unk" unknown.  Equal names <=> equal hashes (keccak injective, atoms have distinct contents).

   Properties as predicates over a snapshot (violations are accumulated in `viol`, every line is consumed):
     C01  RootMirrors, LeafValue          root by deposit count = reference root of the prefix; leaf = contract's leaf value
     C04/C07  the same predicates after reorgs / failed attempts (the expectation depends on `applied` only), TwinAgrees,
              Atomic (a failed ProcessBlock changes nothing), NoHole
     C08  ProofFolds                      every (recorded root, covered position): siblings are the reference siblings
     C14  Stop, Guard, UnhaltOnlyByReorg  derived from the node's own detection (ProcessBlock answered "inconsistent")
*)
EXTENDS Integers, Sequences, FiniteSets, TLC, Json, IOUtils

Trace == ndJsonDeserialize(IOEnv.TRACE_FILE)

VARIABLES l, t,
          applied,    \* surviving history: sequence of [num, evs]
          halted,     \* "no" | "yes" | "maybe" (inconsistent answer of a call that also had an injected fault)
          lastOp,     \* description of the last operation (for reporting)
          viol

vars == <<l, t, applied, halted, lastOp, viol>>

TreeH == 32
P2(h) == IF h >= 20 THEN 1048576 ELSE 2 ^ h      \* fewer than 2^20 leaves in any trace; avoids 32-bit overflow
Min(a, b) == IF a < b THEN a ELSE b

RECURSIVE LeafRecsOfEvs(_, _, _)
LeafRecsOfEvs(evs, num, p) ==
  IF evs = <<>> THEN <<>>
  ELSE (IF Head(evs).t = "leaf" THEN <<[x |-> Head(evs).x, dc |-> Head(evs).dc, b |-> num, p |-> p]>> ELSE <<>>)
       \o LeafRecsOfEvs(Tail(evs), num, p + 1)
RECURSIVE LeafRecs(_)
LeafRecs(bs) == IF bs = <<>> THEN <<>> ELSE LeafRecsOfEvs(Head(bs).evs, Head(bs).num, 0) \o LeafRecs(Tail(bs))

Atoms(recs) == [i \in DOMAIN recs |-> recs[i].x]
ZeroName(h) == [t |-> "z", h |-> h, ls |-> <<>>]
(* name of the subtree (h,k) of the tree over the first m leaves *)
SubName(atoms, m, h, k) ==
  LET lo == k * P2(h) IN
  IF (h >= 20 /\ k > 0) \/ lo >= m THEN ZeroName(h)
  ELSE [t |-> "s", h |-> h, ls |-> SubSeq(atoms, lo + 1, Min(m, lo + P2(h)))]
RootName(atoms, i) == SubName(atoms, i + 1, TreeH, 0)
(* expected siblings of position p under the root over m leaves, zero siblings elided (as the driver does) *)
SibK(p, h) == LET k == p \div P2(h) IN IF h >= 20 THEN 1 ELSE IF k % 2 = 1 THEN k - 1 ELSE k + 1
ExpSibs(atoms, m, p) ==
  LET all == [h \in 0..(TreeH - 1) |-> SubName(atoms, m, h, SibK(p, h))]
  IN SelectSeq([i \in 1..TreeH |-> <<i - 1, all[i - 1]>>], LAMBDA e : e[2].t # "z")

(* methods that walk the never-cleaned node table from a caller-supplied root hash (known finding F10) *)
WalkByRoot == {"GetProof", "GetL1InfoTreeMerkleProofFromIndexToRoot", "GetRollupExitTreeMerkleProof", "GetLocalExitRoot"}

LastNum == IF applied = <<>> THEN 0 ELSE applied[Len(applied)].num

V(kind, info) == [t |-> t, l |-> l, inv |-> kind, info |-> info, after |-> lastOp]

-----------------------------------------------------------------------------
(* what a snapshot must look like when the store is serving data *)
ServingViolations(s) ==
  LET recs  == LeafRecs(applied)
      atoms == Atoms(recs)
      n     == Len(recs)
      vLast == IF s.last.c = "ok" /\ s.last.v = LastNum THEN <<>> ELSE <<V("LastProcessedBlock", [got |-> s.last, want |-> LastNum])>>
      badRoots == { i \in DOMAIN s.roots :
                      LET r == s.roots[i] IN
                      IF r.i < n
                      THEN ~(r.c = "ok" /\ r.n = RootName(atoms, r.i) /\ r.ri = r.i /\ r.b = recs[r.i + 1].b /\ r.p = recs[r.i + 1].p)
                      ELSE r.c # "notfound" }
      vRoots == IF badRoots = {} THEN <<>>
                ELSE LET i == CHOOSE j \in badRoots : \A k \in badRoots : j <= k IN
                     <<V("RootMirrors", [idx |-> s.roots[i].i, got |-> s.roots[i], leaves |-> atoms])>>
      badBy == { i \in DOMAIN s.byler :
                   LET q == s.byler[i]
                       hit == { j \in 0..(n - 1) : RootName(atoms, j) = q.q } IN
                   IF hit = {} THEN q.c # "notfound"
                   ELSE LET j == CHOOSE x \in hit : TRUE IN ~(q.c = "ok" /\ q.i = j /\ q.b = recs[j + 1].b /\ q.n = q.q) }
      vBy == IF badBy = {} THEN <<>>
             ELSE LET i == CHOOSE j \in badBy : TRUE IN <<V("RootByHash", [got |-> s.byler[i], leaves |-> atoms])>>
      wantRows == [i \in 1..n |-> [x |-> recs[i].x, dc |-> recs[i].dc, b |-> recs[i].b, p |-> recs[i].p,
                                   leaf |-> [t |-> "s", h |-> 0, ls |-> <<recs[i].x>>]]]
      vBridges == IF s.bridges.c = "ok" /\ s.bridges.rows = wantRows THEN <<>>
                  ELSE <<V("LeafValue", [got |-> s.bridges, want |-> wantRows])>>
      wantPairs == { <<r, p>> : r \in 0..(n - 1), p \in 0..(n - 1) } \cap { <<r, p>> \in (0..(n - 1)) \X (0..(n - 1)) : p <= r }
      gotPairs == { <<s.proofs[i].r, s.proofs[i].p>> : i \in DOMAIN s.proofs }
      badProofs == { i \in DOMAIN s.proofs :
                       LET q == s.proofs[i] IN
                       q.r < n /\ ~(q.c = "ok" /\ q.sib = ExpSibs(atoms, q.r + 1, q.p)) }
      vProofs == IF gotPairs = wantPairs /\ badProofs = {} THEN <<>>
                 ELSE IF badProofs # {}
                 THEN LET i == CHOOSE j \in badProofs : TRUE IN
                      <<V("ProofFolds", [got |-> s.proofs[i], want |-> ExpSibs(atoms, s.proofs[i].r + 1, s.proofs[i].p)])>>
                 ELSE <<V("ProofFolds", [missing |-> wantPairs \ gotPairs, extra |-> gotPairs \ wantPairs])>>
      vTwin == IF "twin" \in DOMAIN s /\ s.twin.diff # <<>> THEN <<V("TwinAgrees", s.twin)>> ELSE <<>>
      \* tree walks asked with the hash of a root that only a reorged-out fork had (the node table is never cleaned)
      vDead == IF "deadroot" \in DOMAIN s /\ s.deadroot.methods # <<>>
               THEN <<V("ReorgedRootForgotten", [methods |-> s.deadroot.methods, example |-> s.deadroot.example,
                                                 kf |-> IF \A i \in DOMAIN s.deadroot.methods : s.deadroot.methods[i] \in WalkByRoot
                                                        THEN "F10" ELSE "none"])>>
               ELSE <<>>
      vAmb == IF "ambiguous" \in DOMAIN s THEN <<V("INFRA-AmbiguousNames", s.ambiguous)>> ELSE <<>>
  IN vLast \o vRoots \o vBy \o vBridges \o vProofs \o vTwin \o vDead \o vAmb

(* what a snapshot must look like while the store is halted: every data query refuses with the inconsistency error *)
RefusingViolations(s) ==
  LET bad == { m \in DOMAIN s.classes : s.classes[m] # <<"incons">> }
      structural == s.last.c = "incons" /\ s.bridges.c = "incons"
                    /\ (\A i \in DOMAIN s.roots : s.roots[i].c = "incons") /\ (\A i \in DOMAIN s.byler : s.byler[i].c = "incons")
  IN IF bad = {} /\ structural THEN <<>> ELSE <<V("GuardWhileHalted", [unguarded |-> bad, last |-> s.last])>>

-----------------------------------------------------------------------------
Init ==
  /\ TLCSet(1, 0)
  /\ l = 1 /\ t = 0 /\ applied = <<>> /\ halted = "no" /\ lastOp = "init" /\ viol = <<>>

Ev(e) == l <= Len(Trace) /\ Trace[l].ev = e

EvReset ==
  /\ Ev("reset")
  /\ t' = Trace[l].t /\ applied' = <<>> /\ halted' = "no" /\ lastOp' = "reset"
  /\ l' = l + 1 /\ UNCHANGED viol

(* a block is valid for the surviving history if its deposit counts continue it without a gap *)
ValidBlock(e) ==
  LET n == Len(LeafRecs(applied))
      ls == LeafRecsOfEvs(e.evs, e.num, 0)
  IN \A i \in DOMAIN ls : ls[i].dc = n + i - 1

EvProcess ==
  /\ Ev("process")
  /\ LET e == Trace[l] IN
     /\ lastOp' = [op |-> "process", num |-> e.num, fault |-> e.fault, res |-> e.res]
     /\ CASE e.res = "ok" ->
               /\ applied' = Append(applied, [num |-> e.num, evs |-> e.evs])
               /\ viol' = viol \o (IF halted = "yes" THEN <<V("StopWhileHalted", e.num)>> ELSE <<>>)
                               \o (IF e.num <= LastNum THEN <<V("NoHole", [num |-> e.num, last |-> LastNum])>> ELSE <<>>)
               /\ halted' = IF halted = "maybe" THEN "no" ELSE halted
          [] e.res = "incons" ->
               /\ UNCHANGED applied
               /\ halted' = IF halted = "yes" \/ e.fault = "none" THEN "yes" ELSE "maybe"
               /\ UNCHANGED viol
          [] OTHER ->   \* an error: nothing may have changed (checked by the next snapshot)
               /\ UNCHANGED <<applied, halted>>
               /\ viol' = viol \o (IF e.fault = "none" /\ halted = "no" /\ ValidBlock(e)
                                   THEN <<V("FaultFreeProcessFailed", [num |-> e.num, err |-> e.err])>> ELSE <<>>)
  /\ l' = l + 1 /\ UNCHANGED t

EvReorg ==
  /\ Ev("reorg")
  /\ LET e == Trace[l]
         keep == SelectSeq(applied, LAMBDA b : b.num < e.from) IN
     /\ lastOp' = [op |-> "reorg", from |-> e.from, res |-> e.res]
     /\ applied' = IF e.res = "ok" THEN keep ELSE applied
     \* C14: cleared only by a reorg that actually removed processed blocks
     /\ halted' = IF e.res = "ok" /\ Len(keep) < Len(applied) THEN "no" ELSE halted
     /\ viol' = viol \o (IF e.res # "ok" THEN <<V("ReorgFailed", e)>> ELSE <<>>)
  /\ l' = l + 1 /\ UNCHANGED t

EvRestart ==
  /\ Ev("restart")
  /\ lastOp' = [op |-> "restart"]
  /\ halted' = "no"          \* a new process has not detected anything yet
  /\ l' = l + 1 /\ UNCHANGED <<t, applied, viol>>

EvSnap ==
  /\ Ev("snap")
  /\ LET s == Trace[l].s
         h == IF halted = "maybe" THEN (IF s.last.c = "incons" THEN "yes" ELSE "no") ELSE halted
     IN /\ halted' = h
        /\ viol' = viol \o (IF h = "yes" THEN RefusingViolations(s) ELSE ServingViolations(s))
  /\ l' = l + 1 /\ UNCHANGED <<t, applied, lastOp>>

Finish ==
  /\ l = Len(Trace) + 1
  /\ PrintT(<<"VIOL", ToJson(viol)>>)
  /\ PrintT(<<"DONE", ToJson([lines |-> Len(Trace), traces |-> t])>>)
  /\ l' = l + 1 /\ UNCHANGED <<t, applied, halted, lastOp, viol>>

Next == EvReset \/ EvProcess \/ EvReorg \/ EvRestart \/ EvSnap \/ Finish
Spec == Init /\ [][Next]_vars

HW == TLCSet(1, IF l > TLCGet(1) THEN l ELSE TLCGet(1))
Accepted == TLCGet(1) = Len(Trace) + 2
=============================================================================
