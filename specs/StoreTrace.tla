------------------------------- MODULE StoreTrace -------------------------------
(* Property-level monitor for the store family (C01 C04 C07 C08 C14; bridge store), evaluated by TLC on traces recorded
   from the real bridgesync processor.  It knows nothing about frontiers, caches, transactions or SQL: it keeps the
   *surviving history* (`applied`: the blocks a node would have if failed attempts and reorged blocks had never
   happened) and says what every observable answer must be as a function of that history alone.

   Trace lines (ndjson, see harness/areas/store):
     {"ev":"reset","kind":K,"t":T}
     {"ev":"process","num":N,"evs":[{"t":"leaf","x":X,"dc":D}|{"t":"other"}],"fault":F,"res":"ok"|"err"|"incons"}
     {"ev":"reorg","from":B,"res":..,"rows":R}     {"ev":"restart"}
     {"ev":"snap","s":{last, roots, byler, bridges, proofs, twin, classes}}   the named answers after each operation

   Hash names (harness/names): [t |-> "s", h |-> H, ls |-> <<atoms>>] subtree of an append-only tree, "z" zero subtree,
   "unk" unknown.  Equal names <=> equal hashes (keccak injective, atoms have distinct contents).

   Properties as predicates over a snapshot (violations are accumulated in `viol`, every line is consumed):
     C01  RootMirrors, LeafValue          root by deposit count = reference root of the prefix; leaf = contract's leaf value
     C04/C07  the same predicates after reorgs / failed attempts (the expectation depends on `applied` only), TwinAgrees,
              Atomic (a failed ProcessBlock changes nothing), NoHole
     C08  ProofFolds                      every (recorded root, covered position): siblings are the reference siblings
     C14  Stop, Guard, UnhaltOnlyByReorg  derived from the node's own detection (ProcessBlock answered "inconsistent")
*)
EXTENDS Integers, Sequences, FiniteSets, TLC, Json, IOUtils

Trace == ndJsonDeserialize(IOEnv.TRACE_FILE)

VARIABLES l, t, kind,
          lostG,      \* injected-GER store: GERs whose removal was in a block that was reorged out later (finding F2b)
          applied,    \* surviving history: sequence of [num, evs]
          halted,     \* "no" | "yes" | "maybe" (inconsistent answer of a call that also had an injected fault)
          lastOp,     \* description of the last operation (for reporting)
          viol

vars == <<l, t, kind, lostG, applied, halted, lastOp, viol>>

TreeH == 32
P2(h) == IF h >= 20 THEN 1048576 ELSE 2 ^ h      \* fewer than 2^20 leaves in any trace; avoids 32-bit overflow
Min(a, b) == IF a < b THEN a ELSE b

RECURSIVE LeafRecsOfEvs(_, _, _)
LeafRecsOfEvs(evs, num, p) ==
  IF evs = <<>> THEN <<>>
  ELSE (IF Head(evs).t = "leaf"
        THEN <<[x |-> Head(evs).x, dc |-> IF "dc" \in DOMAIN Head(evs) THEN Head(evs).dc ELSE -1, b |-> num, p |-> p]>> ELSE <<>>)
       \o LeafRecsOfEvs(Tail(evs), num, p + 1)
RECURSIVE LeafRecs(_)
LeafRecs(bs) == IF bs = <<>> THEN <<>> ELSE LeafRecsOfEvs(Head(bs).evs, Head(bs).num, 0) \o LeafRecs(Tail(bs))

Atoms(recs) == [i \in DOMAIN recs |-> recs[i].x]
ZeroName(h) == [t |-> "z", h |-> h, ls |-> <<>>]
(* name of the subtree (h,k) of the tree over the first m leaves *)
SubName(atoms, m, h, k) ==
  LET lo == k * P2(h) IN
  IF (h >= 20 /\ k > 0) \/ lo >= m THEN ZeroName(h)
  ELSE [t |-> "s", h |-> h, ls |-> SubSeq(atoms, lo + 1, Min(m, lo + P2(h)))]
RootName(atoms, i) == SubName(atoms, i + 1, TreeH, 0)
(* expected siblings of position p under the root over m leaves, zero siblings elided (as the driver does) *)
SibK(p, h) == LET k == p \div P2(h) IN IF h >= 20 THEN 1 ELSE IF k % 2 = 1 THEN k - 1 ELSE k + 1
ExpSibs(atoms, m, p) ==
  LET all == [h \in 0..(TreeH - 1) |-> SubName(atoms, m, h, SibK(p, h))]
  IN SelectSeq([i \in 1..TreeH |-> <<i - 1, all[i - 1]>>], LAMBDA e : e[2].t # "z")

(* methods that walk the never-cleaned node table from a caller-supplied root hash (known finding F10) *)
WalkByRoot == {"GetProof", "GetL1InfoTreeMerkleProofFromIndexToRoot", "GetRollupExitTreeMerkleProof", "GetLocalExitRoot"}

LastNum == IF applied = <<>> THEN 0 ELSE applied[Len(applied)].num

V(pred, info) == [t |-> t, l |-> l, inv |-> pred, info |-> info, after |-> lastOp]

-----------------------------------------------------------------------------
(* what a snapshot must look like when the store is serving data *)
ServingViolations(s) ==
  LET recs  == LeafRecs(applied)
      atoms == Atoms(recs)
      n     == Len(recs)
      vLast == IF s.last.c = "ok" /\ s.last.v = LastNum THEN <<>> ELSE <<V("LastProcessedBlock", [got |-> s.last, want |-> LastNum])>>
      badRoots == { i \in DOMAIN s.roots :
                      LET r == s.roots[i] IN
                      IF r.i < n
                      THEN ~(r.c = "ok" /\ r.n = RootName(atoms, r.i) /\ r.ri = r.i /\ r.b = recs[r.i + 1].b /\ r.p = recs[r.i + 1].p)
                      ELSE r.c # "notfound" }
      vRoots == IF badRoots = {} THEN <<>>
                ELSE LET i == CHOOSE j \in badRoots : \A k \in badRoots : j <= k IN
                     <<V("RootMirrors", [idx |-> s.roots[i].i, got |-> s.roots[i], leaves |-> atoms])>>
      badBy == { i \in DOMAIN s.byler :
                   LET q == s.byler[i]
                       hit == { j \in 0..(n - 1) : RootName(atoms, j) = q.q } IN
                   IF hit = {} THEN q.c # "notfound"
                   ELSE LET j == CHOOSE x \in hit : TRUE IN ~(q.c = "ok" /\ q.i = j /\ q.b = recs[j + 1].b /\ q.n = q.q) }
      vBy == IF badBy = {} THEN <<>>
             ELSE LET i == CHOOSE j \in badBy : TRUE IN <<V("RootByHash", [got |-> s.byler[i], leaves |-> atoms])>>
      wantRows == [i \in 1..n |-> [x |-> recs[i].x, dc |-> recs[i].dc, b |-> recs[i].b, p |-> recs[i].p,
                                   leaf |-> [t |-> "s", h |-> 0, ls |-> <<recs[i].x>>]]]
      vBridges == IF s.bridges.c = "ok" /\ s.bridges.rows = wantRows THEN <<>>
                  ELSE <<V("LeafValue", [got |-> s.bridges, want |-> wantRows])>>
      wantPairs == { <<r, p>> : r \in 0..(n - 1), p \in 0..(n - 1) } \cap { <<r, p>> \in (0..(n - 1)) \X (0..(n - 1)) : p <= r }
      gotPairs == { <<s.proofs[i].r, s.proofs[i].p>> : i \in DOMAIN s.proofs }
      badProofs == { i \in DOMAIN s.proofs :
                       LET q == s.proofs[i] IN
                       q.r < n /\ ~(q.c = "ok" /\ q.sib = ExpSibs(atoms, q.r + 1, q.p)) }
      vProofs == IF gotPairs = wantPairs /\ badProofs = {} THEN <<>>
                 ELSE IF badProofs # {}
                 THEN LET i == CHOOSE j \in badProofs : TRUE IN
                      <<V("ProofFolds", [got |-> s.proofs[i], want |-> ExpSibs(atoms, s.proofs[i].r + 1, s.proofs[i].p)])>>
                 ELSE <<V("ProofFolds", [missing |-> wantPairs \ gotPairs, extra |-> gotPairs \ wantPairs])>>
      \* a proof query during which one read failed answers with an error or with the right proof
      badF == IF "fproofs" \notin DOMAIN s THEN {} ELSE
              { i \in DOMAIN s.fproofs : LET q == s.fproofs[i] IN
                  q.r < n /\ q.c # "err" /\ ~(q.c = "ok" /\ q.sib = ExpSibs(atoms, q.r + 1, q.p)) }
      vF == IF badF = {} THEN <<>>
            ELSE LET i == CHOOSE j \in badF : TRUE IN
                 <<V("ProofUnderReadFault", [got |-> s.fproofs[i], want |-> ExpSibs(atoms, s.fproofs[i].r + 1, s.fproofs[i].p)])>>
      vTwin == IF "twin" \in DOMAIN s /\ s.twin.diff # <<>> THEN <<V("TwinAgrees", s.twin)>> ELSE <<>>
      \* tree walks asked with the hash of a root that only a reorged-out fork had (the node table is never cleaned)
      vDead == IF "deadroot" \in DOMAIN s /\ s.deadroot.methods # <<>>
               THEN <<V("ReorgedRootForgotten", [methods |-> s.deadroot.methods, example |-> s.deadroot.example,
                                                 kf |-> IF \A i \in DOMAIN s.deadroot.methods : s.deadroot.methods[i] \in WalkByRoot
                                                        THEN "F10" ELSE "none"])>>
               ELSE <<>>
      vAmb == IF "ambiguous" \in DOMAIN s THEN <<V("INFRA-AmbiguousNames", s.ambiguous)>> ELSE <<>>
  IN vLast \o vRoots \o vBy \o vBridges \o vProofs \o vF \o vTwin \o vDead \o vAmb

(* what a snapshot must look like while the store is halted: every data query refuses with the inconsistency error *)
RefusingViolations(s) ==
  LET bad == { m \in DOMAIN s.classes : s.classes[m] # <<"incons">> }
  IN IF bad = {} /\ s.last.c = "incons" THEN <<>> ELSE <<V("GuardWhileHalted", [unguarded |-> bad, last |-> s.last])>>

-----------------------------------------------------------------------------
(* ---- L1 info tree store (C11 and the l1info part of C04 C07 C08 C14) ---- *)
RECURSIVE VerifiesOfEvs(_, _, _)
VerifiesOfEvs(evs, num, p) ==
  IF evs = <<>> THEN <<>>
  ELSE (IF Head(evs).t = "verify" THEN <<[r |-> Head(evs).r, x |-> Head(evs).x, b |-> num, p |-> p]>> ELSE <<>>)
       \o VerifiesOfEvs(Tail(evs), num, p + 1)
RECURSIVE Verifies(_)
Verifies(bs) == IF bs = <<>> THEN <<>> ELSE VerifiesOfEvs(Head(bs).evs, Head(bs).num, 0) \o Verifies(Tail(bs))

(* effective updates of the rollup exit tree: zero and unchanged exit roots are skipped; each carries the tree state f *)
RECURSIVE UStates(_, _, _)
UStates(vs, f, acc) ==
  IF vs = <<>> THEN acc
  ELSE LET v == Head(vs) pos == v.r - 1 IN
       IF v.x = 0 \/ (pos \in DOMAIN f /\ f[pos] = v.x) THEN UStates(Tail(vs), f, acc)
       ELSE LET g == (pos :> v.x) @@ f IN UStates(Tail(vs), g, Append(acc, [r |-> v.r, x |-> v.x, b |-> v.b, p |-> v.p, f |-> g]))
EmptyFn == [i \in {} |-> 0]

SortedPairs(S) == \* S: set of <<pos, x>> with distinct pos -> sequence sorted by pos
  LET n == Cardinality(S)
      rank(e) == Cardinality({d \in S : d[1] < e[1]}) + 1
  IN [i \in 1..n |-> CHOOSE e \in S : rank(e) = i]
UName(f, h, k) ==
  LET lo == k * P2(h)
      inside == { pos \in DOMAIN f : (h >= 20 /\ k = 0) \/ (h < 20 /\ pos >= lo /\ pos < lo + P2(h)) } IN
  IF inside = {} \/ (h >= 20 /\ k > 0) THEN ZeroName(h)
  ELSE [t |-> "u", h |-> h, ls |-> SortedPairs({ <<pos - lo, f[pos]>> : pos \in inside })]
ExpUSibs(f, pos) ==
  LET all == [h \in 0..(TreeH - 1) |-> UName(f, h, SibK(pos, h))]
  IN SelectSeq([i \in 1..TreeH |-> <<i - 1, all[i - 1]>>], LAMBDA e : e[2].t # "z")

L1ServingViolations(s) ==
  LET recs  == LeafRecs(applied)
      atoms == Atoms(recs)
      n     == Len(recs)
      us    == UStates(Verifies(applied), EmptyFn, <<>>)
      vLast == IF s.last.c = "ok" /\ s.last.v = LastNum THEN <<>> ELSE <<V("LastProcessedBlock", [got |-> s.last, want |-> LastNum])>>
      badInfos == { i \in DOMAIN s.infos :
                      LET q == s.infos[i] IN
                      IF q.i < n
                      THEN ~(q.c = "ok" /\ q.x = recs[q.i + 1].x /\ q.li = q.i /\ q.b = recs[q.i + 1].b /\ q.p = recs[q.i + 1].p
                             /\ q.ger = [t |-> "ger", h |-> 0, ls |-> <<q.x>>] /\ q.hash = [t |-> "s", h |-> 0, ls |-> <<q.x>>])
                      ELSE q.c # "notfound" }
      vInfos == IF badInfos = {} THEN <<>>
                ELSE LET i == CHOOSE j \in badInfos : TRUE IN <<V("InfoLeaves", [got |-> s.infos[i], leaves |-> atoms])>>
      badGer == { i \in DOMAIN s.byger :
                    LET q == s.byger[i]
                        hit == { j \in 1..n : atoms[j] = q.x } IN
                    IF hit = {} THEN q.c # "notfound"
                    ELSE ~(q.c = "ok" /\ q.gx = q.x /\ q.i + 1 \in hit) }
      vGer == IF badGer = {} THEN <<>>
              ELSE LET i == CHOOSE j \in badGer : TRUE IN <<V("InfoLeaves", [byger |-> s.byger[i], leaves |-> atoms])>>
      badRoots == { i \in DOMAIN s.roots :
                      LET r == s.roots[i] IN
                      IF r.i < n
                      THEN ~(r.c = "ok" /\ r.n = RootName(atoms, r.i) /\ r.ri = r.i /\ r.b = recs[r.i + 1].b /\ r.p = recs[r.i + 1].p)
                      ELSE r.c # "notfound" }
      vRoots == IF badRoots = {} THEN <<>>
                ELSE LET i == CHOOSE j \in badRoots : \A k \in badRoots : j <= k IN
                     <<V("RootMirrors", [idx |-> s.roots[i].i, got |-> s.roots[i], leaves |-> atoms])>>
      badBlk == IF "byblock" \notin DOMAIN s THEN {} ELSE
                { i \in DOMAIN s.byblock :
                    LET q == s.byblock[i]
                        upto == { j \in 1..n : recs[j].b <= q.b }
                        from == { j \in 1..n : recs[j].b >= q.b } IN
                    ~( /\ IF q.b > LastNum THEN q.uc # "ok"
                          ELSE IF upto = {} THEN q.uc = "notfound"
                          ELSE q.uc = "ok" /\ q.ui = Cardinality(upto) - 1           \* the latest leaf at or below the block
                       /\ IF from = {} THEN q.ac = "notfound"
                          ELSE q.ac = "ok" /\ q.ai = n - Cardinality(from) ) }       \* the first leaf at or above the block
      vBlk == IF badBlk = {} THEN <<>>
              ELSE LET i == CHOOSE j \in badBlk : \A k \in badBlk : j <= k IN
                   <<V("InfoByBlock", [got |-> s.byblock[i], leaves |-> [j \in 1..n |-> <<recs[j].x, recs[j].b>>]])>>
      vEnds == IF "ends" \notin DOMAIN s
                  \/ (n = 0 /\ s.ends.fc = "notfound" /\ s.ends.lc = "notfound")
                  \/ (n > 0 /\ s.ends.fc = "ok" /\ s.ends.fi = 0 /\ s.ends.lc = "ok" /\ s.ends.li = n - 1)
               THEN <<>> ELSE <<V("InfoByBlock", [ends |-> s.ends, n |-> n])>>
      vLastRoot == IF (n = 0 /\ s.lastroot.c = "notfound")
                      \/ (n > 0 /\ s.lastroot.c = "ok" /\ s.lastroot.n = RootName(atoms, n - 1) /\ s.lastroot.ri = n - 1)
                   THEN <<>> ELSE <<V("RootMirrors", [lastroot |-> s.lastroot, leaves |-> atoms])>>
      wantPairs == { <<r, p, FALSE>> : r \in 0..(n - 1), p \in 0..(n - 1) } \cap { q \in (0..(n - 1)) \X (0..(n - 1)) \X {FALSE} : q[2] <= q[1] }
      ownPairs == { <<r, r, TRUE>> : r \in 0..(n - 1) }
      gotPairs == { <<s.proofs[i].r, s.proofs[i].p, "own" \in DOMAIN s.proofs[i]>> : i \in DOMAIN s.proofs }
      badProofs == { i \in DOMAIN s.proofs :
                       LET q == s.proofs[i] IN
                       q.r < n /\ ~(q.c = "ok" /\ q.sib = ExpSibs(atoms, q.r + 1, q.p)
                                    /\ ("own" \in DOMAIN q => q.n = RootName(atoms, q.r))) }
      vProofs == IF gotPairs = wantPairs \cup ownPairs /\ badProofs = {} THEN <<>>
                 ELSE IF badProofs # {}
                 THEN LET i == CHOOSE j \in badProofs : TRUE IN
                      <<V("ProofFolds", [got |-> s.proofs[i], want |-> ExpSibs(atoms, s.proofs[i].r + 1, s.proofs[i].p)])>>
                 ELSE <<V("ProofFolds", [missing |-> (wantPairs \cup ownPairs) \ gotPairs, extra |-> gotPairs \ (wantPairs \cup ownPairs)])>>
      nu == Len(us)
      vULast == IF (nu = 0 /\ s.ulast.c = "notfound")
                   \/ (nu > 0 /\ s.ulast.c = "ok" /\ s.ulast.n = UName(us[nu].f, TreeH, 0) /\ s.ulast.pos = us[nu].r - 1 /\ s.ulast.b = us[nu].b)
                THEN <<>> ELSE <<V("RollupTree", [ulast |-> s.ulast, updates |-> [i \in 1..nu |-> <<us[i].r, us[i].x>>]])>>
      badVer == { i \in DOMAIN s.verified :
                    LET q == s.verified[i]
                        mine == { j \in 1..nu : us[j].r = q.r } IN
                    IF mine = {} THEN q.c # "notfound"
                    ELSE LET j == CHOOSE x \in mine : \A y \in mine : y <= x IN
                         ~(q.c = "ok" /\ q.x = us[j].x /\ q.b = us[j].b /\ q.rer = UName(us[j].f, TreeH, 0)) }
      vVer == IF badVer = {} THEN <<>>
              ELSE LET i == CHOOSE j \in badVer : TRUE IN
                   <<V("RollupTree", [verified |-> s.verified[i], updates |-> [k \in 1..nu |-> <<us[k].r, us[k].x>>]])>>
      wantU == UNION { { <<u, pos>> : pos \in DOMAIN us[u].f } : u \in 1..nu }
      gotU == { <<s.uproofs[i].u, s.uproofs[i].pos>> : i \in DOMAIN s.uproofs }
      badU == { i \in DOMAIN s.uproofs :
                  LET q == s.uproofs[i] IN
                  q.u <= nu /\ q.pos \in DOMAIN us[q.u].f
                  /\ ~(q.c = "ok" /\ q.sib = ExpUSibs(us[q.u].f, q.pos) /\ q.lc = "ok" /\ q.lx = us[q.u].f[q.pos]) }
      vU == IF gotU = wantU /\ badU = {} THEN <<>>
            ELSE IF badU # {} THEN LET i == CHOOSE j \in badU : TRUE IN
                 <<V("ProofFolds", [rollup |-> s.uproofs[i], want |-> ExpUSibs(us[s.uproofs[i].u].f, s.uproofs[i].pos)])>>
            ELSE <<V("ProofFolds", [umissing |-> wantU \ gotU, uextra |-> gotU \ wantU])>>
      vTwin == IF "twin" \in DOMAIN s /\ s.twin.diff # <<>> THEN <<V("TwinAgrees", s.twin)>> ELSE <<>>
      vDead == IF "deadroot" \in DOMAIN s /\ s.deadroot.methods # <<>>
               THEN <<V("ReorgedRootForgotten", [methods |-> s.deadroot.methods, example |-> s.deadroot.example,
                                                 kf |-> IF \A i \in DOMAIN s.deadroot.methods : s.deadroot.methods[i] \in WalkByRoot
                                                        THEN "F10" ELSE "none"])>>
               ELSE <<>>
      vAmb == IF "ambiguous" \in DOMAIN s THEN <<V("INFRA-AmbiguousNames", s.ambiguous)>> ELSE <<>>
      badF == IF "fproofs" \notin DOMAIN s THEN {} ELSE
              { i \in DOMAIN s.fproofs : LET q == s.fproofs[i] IN
                  q.r < n /\ q.c # "err" /\ ~(q.c = "ok" /\ q.sib = ExpSibs(atoms, q.r + 1, q.p)) }
      vF == IF badF = {} THEN <<>>
            ELSE LET i == CHOOSE j \in badF : TRUE IN
                 <<V("ProofUnderReadFault", [got |-> s.fproofs[i], want |-> ExpSibs(atoms, s.fproofs[i].r + 1, s.fproofs[i].p)])>>
  IN vLast \o vInfos \o vGer \o vBlk \o vEnds \o vRoots \o vLastRoot \o vProofs \o vF \o vULast \o vVer \o vU \o vTwin \o vDead \o vAmb

(* F5: the block contains an effective rollup-tree update that brings the tree back to a state it already had in the
   surviving history (its root hash is the primary key of the root table) *)
RecursToEarlierState(e) ==
  LET before == UStates(Verifies(applied), EmptyFn, <<>>)
      after  == UStates(Verifies(Append(applied, [num |-> e.num, evs |-> e.evs])), EmptyFn, <<>>)
  IN \E i \in (Len(before) + 1)..Len(after) : \E j \in 1..(i - 1) : after[j].f = after[i].f

-----------------------------------------------------------------------------
(* ---- injected-GER store (C04 C07): rows = GERs injected and not removed since, in the surviving history ---- *)
GerRemovedIn(evs, x) == \E i \in DOMAIN evs : evs[i].t = "gerrm" /\ evs[i].x = x
GerInserted(bs) == { x \in 1..64 : \E i \in DOMAIN bs : \E j \in DOMAIN bs[i].evs : bs[i].evs[j].t = "ger" /\ bs[i].evs[j].x = x }
RECURSIVE GLiveEvs(_, _)
GLiveEvs(evs, live) == IF evs = <<>> THEN live
                       ELSE GLiveEvs(Tail(evs), IF Head(evs).t = "ger" THEN live \cup {Head(evs).x}
                                                ELSE IF Head(evs).t = "gerrm" THEN live \ {Head(evs).x} ELSE live)
RECURSIVE GLive(_, _)
GLive(bs, live) == IF bs = <<>> THEN live ELSE GLive(Tail(bs), GLiveEvs(Head(bs).evs, live))
GerIdx(x) == 10 * x + 3

GerServingViolations(s) ==
  LET live == GLive(applied, {})
      vLast == IF s.last.c = "ok" /\ s.last.v = LastNum THEN <<>> ELSE <<V("LastProcessedBlock", [got |-> s.last, want |-> LastNum])>>
      \* an answer must be an injected, not removed GER with index >= q; an answer must exist whenever such a GER exists
      wrong == { i \in DOMAIN s.firsts : LET f == s.firsts[i] IN
                   f.c = "ok" /\ ~(f.x \in live /\ f.idx = GerIdx(f.x) /\ f.idx >= f.q) }
      missed == { i \in DOMAIN s.firsts : LET f == s.firsts[i] IN
                   f.c # "ok" /\ \E x \in live : GerIdx(x) >= f.q }
      missedAtoms == { x \in live : \E i \in missed : GerIdx(x) >= s.firsts[i].q /\
                         ~\E y \in live : GerIdx(y) >= s.firsts[i].q /\ GerIdx(y) < GerIdx(x) }
      vWrong == IF wrong = {} THEN <<>> ELSE LET i == CHOOSE j \in wrong : TRUE IN <<V("InjectedGERs", [got |-> s.firsts[i], live |-> live])>>
      \* (known finding F2b: every missed GER is one whose removal sat in a reorged-out block)
      vMissed == IF missed = {} THEN <<>>
                 ELSE LET i == CHOOSE j \in missed : TRUE IN
                      <<V("InjectedGERs", [missed |-> s.firsts[i], live |-> live,
                                           kf |-> IF \A j \in missed : \A x \in live : GerIdx(x) >= s.firsts[j].q => x \in lostG
                                                  THEN "F2b" ELSE "none"])>>
      notSame == { i \in DOMAIN s.firsts : "same" \in DOMAIN s.firsts[i] /\ ~s.firsts[i].same }
      \* disagreement with the twin that the lost GERs do not explain
      vTwinQ == IF notSame = {} THEN <<>>
                ELSE LET i == CHOOSE j \in notSame : TRUE IN
                     <<V("TwinAgrees", [first |-> s.firsts[i], kf |-> IF (live \cap lostG) # {} THEN "F2b" ELSE "none"])>>
      vTwin == IF "twin" \in DOMAIN s /\ s.twin.diff # <<>> THEN <<V("TwinAgrees", s.twin)>> ELSE <<>>
  IN vLast \o vWrong \o vMissed \o vTwinQ \o vTwin

-----------------------------------------------------------------------------
Init ==
  /\ TLCSet(1, 0)
  /\ l = 1 /\ t = 0 /\ kind = "bridge" /\ lostG = {} /\ applied = <<>> /\ halted = "no" /\ lastOp = "init" /\ viol = <<>>

Ev(e) == l <= Len(Trace) /\ Trace[l].ev = e

EvReset ==
  /\ Ev("reset")
  /\ t' = Trace[l].t /\ kind' = Trace[l].kind /\ lostG' = {} /\ applied' = <<>> /\ halted' = "no" /\ lastOp' = "reset"
  /\ l' = l + 1 /\ UNCHANGED viol

(* a block is valid for the surviving history if its deposit counts continue it without a gap *)
ValidBlock(e) ==
  IF e.num <= LastNum THEN FALSE      \* a block number that is already stored (e.g. after a fault that came too late to fail the call)
  ELSE IF kind = "bridge"
  THEN LET n == Len(LeafRecs(applied))
           ls == LeafRecsOfEvs(e.evs, e.num, 0)
       IN \A i \in DOMAIN ls : ls[i].dc = n + i - 1
  ELSE IF kind = "ger" THEN Len(e.evs) <= 1
  ELSE \A i \in DOMAIN e.evs : e.evs[i].t = "v2" =>
          (e.evs[i].good /\ (LeafRecs(applied) # <<>> \/ \E j \in 1..(i - 1) : e.evs[j].t = "leaf"))

EvProcess ==
  /\ Ev("process")
  /\ LET e == Trace[l] IN
     /\ lastOp' = [op |-> "process", num |-> e.num, fault |-> e.fault, res |-> e.res]
     /\ CASE e.res = "ok" ->
               /\ applied' = Append(applied, [num |-> e.num, evs |-> e.evs])
               /\ viol' = viol \o (IF halted = "yes" THEN <<V("StopWhileHalted", e.num)>> ELSE <<>>)
                               \o (IF e.num <= LastNum THEN <<V("NoHole", [num |-> e.num, last |-> LastNum])>> ELSE <<>>)
               /\ halted' = IF halted = "maybe" THEN "no" ELSE halted
          [] e.res = "incons" ->
               /\ UNCHANGED applied
               /\ halted' = IF halted = "yes" \/ e.fault = "none" THEN "yes" ELSE "maybe"
               /\ UNCHANGED viol
          [] OTHER ->   \* an error: nothing may have changed (checked by the next snapshot)
               /\ UNCHANGED <<applied, halted>>
               /\ viol' = viol \o (IF e.fault = "none" /\ halted = "no" /\ ValidBlock(e)
                                   THEN <<V("FaultFreeProcessFailed", [num |-> e.num, err |-> e.err,
                                            kf |-> IF kind = "l1info" /\ RecursToEarlierState(e) THEN "F5" ELSE "none"])>> ELSE <<>>)
  /\ l' = l + 1 /\ UNCHANGED <<t, kind, lostG>>

EvReorg ==
  /\ Ev("reorg")
  /\ LET e == Trace[l]
         keep == SelectSeq(applied, LAMBDA b : b.num < e.from)
         faulted == "fault" \in DOMAIN e /\ e.fault # "none" IN
     /\ lastOp' = [op |-> "reorg", from |-> e.from, res |-> e.res]
     \* a reorg that failed changed nothing: neither the surviving history nor the halted condition (next snapshot checks)
     /\ applied' = IF e.res = "ok" THEN keep ELSE applied
     \* C14: cleared only by a reorg that actually removed processed blocks
     /\ halted' = IF e.res = "ok" /\ Len(keep) < Len(applied) THEN "no" ELSE halted
     /\ viol' = viol \o (IF e.res # "ok" /\ ~faulted THEN <<V("ReorgFailed", e)>> ELSE <<>>)
     /\ lostG' = IF kind = "ger" /\ e.res = "ok"
                 THEN lostG \cup { x \in GerInserted(keep) : \E i \in DOMAIN applied : applied[i].num >= e.from /\ GerRemovedIn(applied[i].evs, x) }
                 ELSE lostG
  /\ l' = l + 1 /\ UNCHANGED <<t, kind>>

EvRestart ==
  /\ Ev("restart")
  /\ lastOp' = [op |-> "restart"]
  /\ halted' = "no"          \* a new process has not detected anything yet
  /\ l' = l + 1 /\ UNCHANGED <<t, kind, lostG, applied, viol>>

EvSnap ==
  /\ Ev("snap")
  /\ LET s == Trace[l].s
         h == IF halted = "maybe" THEN (IF s.last.c = "incons" THEN "yes" ELSE "no") ELSE halted
     IN /\ halted' = h
        \* C14: the halt is cleared by a reorg that removed processed blocks (and by nothing else): a node that the history
        \* says is not halted answers
        /\ viol' = viol \o (IF h = "no" /\ s.last.c = "incons"
                            THEN <<V("HaltClearedByEffectiveReorg", [after |-> lastOp])>> ELSE <<>>)
                       \o (IF h = "yes" THEN RefusingViolations(s)
                            ELSE IF kind = "l1info" THEN L1ServingViolations(s)
                            ELSE IF kind = "ger" THEN GerServingViolations(s) ELSE ServingViolations(s))
  /\ l' = l + 1 /\ UNCHANGED <<t, kind, lostG, applied, lastOp>>

(* a reader in the middle of an operation (the block's / the reorg's transaction is open, not committed): what it is
   told by the look-ups that need no transaction of their own is the state before the operation - all or nothing *)
PeekViolations(s) ==
  LET recs  == LeafRecs(applied)
      atoms == Atoms(recs)
      n     == Len(recs)
      vLast == IF s.last.c = "ok" /\ s.last.v = LastNum THEN <<>>
               ELSE <<V("ReaderSeesCommittedState", [last |-> s.last, want |-> LastNum])>>
      bad == { i \in DOMAIN s.roots :
                 LET r == s.roots[i] IN
                 IF r.i < n
                 THEN ~(r.c = "ok" /\ r.n = RootName(atoms, r.i) /\ r.ri = r.i /\ r.b = recs[r.i + 1].b /\ r.p = recs[r.i + 1].p)
                 ELSE r.c # "notfound" }
      vRoots == IF bad = {} THEN <<>>
                ELSE LET i == CHOOSE j \in bad : \A k \in bad : j <= k IN
                     <<V("ReaderSeesCommittedState", [idx |-> s.roots[i].i, got |-> s.roots[i], leaves |-> atoms])>>
  IN vLast \o vRoots

EvPeek ==
  /\ Ev("peek")
  /\ viol' = viol \o (IF halted = "no" /\ kind # "ger" THEN PeekViolations(Trace[l].s) ELSE <<>>)
  /\ l' = l + 1 /\ UNCHANGED <<t, kind, lostG, applied, halted, lastOp>>

Finish ==
  /\ l = Len(Trace) + 1
  /\ PrintT(<<"VIOL", ToJson(viol)>>)
  /\ PrintT(<<"DONE", ToJson([lines |-> Len(Trace), traces |-> t])>>)
  /\ l' = l + 1 /\ UNCHANGED <<t, kind, lostG, applied, halted, lastOp, viol>>

Next == EvReset \/ EvProcess \/ EvReorg \/ EvRestart \/ EvSnap \/ EvPeek \/ Finish
Spec == Init /\ [][Next]_vars

HW == TLCSet(1, IF l > TLCGet(1) THEN l ELSE TLCGet(1))
Accepted == TLCGet(1) = Len(Trace) + 2
=============================================================================
