\* case export: one list varies over every class combination (length 0..2), the other is a default; + the four corner shapes
CONSTANTS
  Schemes = {"pp", "fep"}
  AmtClasses = {"nil", "zero", "one", "max"}
  MetaClasses = {"empty", "b32"}
  LeafTypes = {"asset", "message"}
  GIParts = {"z", "lo", "hi"}
  HeightClasses = {"h0", "hbig"}
  ParamClasses = {"zero", "rand"}
  Mode = "coverfull"
INIT Init
NEXT Next
ACTION_CONSTRAINT Dump
CHECK_DEADLOCK FALSE
