\* case export for replay into the real claim handler, thorough: all trees with <= 5 frames
CONSTANTS
  MaxFrames = 5
  FullUpTo = 3
  Kinds = {"other", "decoy", "asset", "msg", "preAsset", "preMsg"}
  CoreKinds = {"other", "asset"}
  GIs = {"A", "B"}
  EvGIs = {"A"}
INIT Init
NEXT Next
ACTION_CONSTRAINT Dump
CHECK_DEADLOCK FALSE
