\* generated by mkaggcfg.py - edge cover, one-block certificates
CONSTANTS
  MaxBlocks = 3
  MaxBridges = 1
  MaxCerts = 3
  MaxSteps = 40
  RetryImm = TRUE
  MaxCertBlocks = 1
  CallFailures = FALSE
  Crashes = {}
  StoreFaults = FALSE
  LoseDB = FALSE
  HeaderHasPrev = TRUE
  FixedF4 = "v2"
  Mode = "pp"
INIT Init
NEXT Next
VIEW view
ACTION_CONSTRAINT Dump
CHECK_DEADLOCK FALSE
