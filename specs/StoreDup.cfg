\* generated by mkstorecfg.py - deposits repeating the content of earlier ones (the same leaf value at several indexes), restart + reorg
CONSTANTS
  Kind = "bridge"
  Fixed = TRUE
  FixedF11 = TRUE
  H = 3
  MaxBlocks = 3
  MaxEvents = 2
  MaxLeaves = 3
  MaxOps = 5
  Faults = {}
  AllowGap = FALSE
  Dups = TRUE
  AllowRestart = TRUE
  AllowReorg = TRUE
  Rollups = {}
  ExitRoots = {}
INIT Init
NEXT Next
VIEW view
INVARIANT Inv
CHECK_DEADLOCK FALSE
