\* generated by mkbridgeapicfg.sh - C12 case export, L2 focus (our rollup at position 1)
CONSTANTS
  H = 2
  MaxDeps = 1
  MaxL2 = 3
  MaxInfos = 5
  MaxBlocks = 4
  MaxVer = 3
  Ours = 2
  Others = {}
  AllowSkipped = FALSE
  Variant = "code"
INIT Init
NEXT Next
ACTION_CONSTRAINT Dump
CHECK_DEADLOCK FALSE
