\* behaviour export (edge cover) for replay into the real lastgersync stack
CONSTANTS
  MaxBlock = 4
  NG = 2
  Fixed = TRUE
  Variant = "tipblock"
  RestoreOnReorg = FALSE
  MaxRestarts = 1
  MaxReorgs = 1
  MaxDepth = 2
INIT Init
NEXT Next
VIEW view
ACTION_CONSTRAINT Dump
CHECK_DEADLOCK FALSE
