\* model of the bridge processor before the repair of F13: a failing ProcessBlock answers 'inconsistent state' without halting;
\* the driver drops the block and still takes the buffered ones: NoSkip fails
CONSTANTS
  N = 3
  Chunks = {3}
  TipTags = {"latest"}
  BufCap = 2
  MaxForks = 0
  MaxFails = 0
  MaxPFails = 1
  MaxRestarts = 0
  Detector = FALSE
  RetryLimit = 5
  AtomicRemove = FALSE
  RemoveByHash = FALSE
  LockedRemove = TRUE
  InconsOnFault = TRUE
  Contents = {0,1}
  FinLag = 0
  NoIdle = FALSE
  SimDepth = 0
INIT Init
NEXT Next
VIEW view
INVARIANTS NoSkip
CHECK_DEADLOCK FALSE
