------------------------------ MODULE CertCutTrace ------------------------------
(* Property-level monitor for C17, evaluated by TLC on the outcomes recorded from the real code
   (GetCertificateBuildParamsInternal/limitCertSize, MaxL2BlockNumberLimiter.AdaptCertificate,
   CertificateBuildParams.Range, BlockRange.Gap).

   It contains only what the property says:
     * a cut keeps the same first block, ends at the largest permitted block, and contains exactly the events of the kept
       blocks in their original order (nothing dropped, duplicated or reordered);
     * a size cut exceeds the size limit only when it is a single block;
     * Gap never reports a gap between touching or overlapping ranges, and otherwise reports exactly the blocks strictly
       between them.
   It knows nothing about loops, Range calls or wrap-around: all arithmetic here is on mathematical integers.

   Block numbers are recorded symbolically as <<zone, k>>: <<0,k>> = k, <<1,k>> = 2^64-1-k (k < 2^20), <<2,_>> = any other
   value.  Val embeds them order-preservingly into TLC's integers (0 .. BIG); +1/-1 neighbourhood is preserved inside a
   zone and the two zones are never adjacent, which is all the property's predicates use.

   Trace lines (ndjson), each case is judged on its own:
     {"ev":"consts","br100","cl100","sig100","prf100"}          size model of the code's constants (hundredths of a byte)
     {"ev":"size", from,to,typ,br,cl, max, ok,err,rfrom,rto,rbr,rcl,rsize}      full certificate -> size cut
     {"ev":"limit",from,to,typ,br,cl, limit,retry,allow,req, ok,...}            certificate -> last-L2-block cut
     {"ev":"range",from,to,typ,br,cl, f,t, ok,...}                              certificate -> Range(f,t)
     {"ev":"gap",  a,b, g, empty, count}                                        a.Gap(b), IsEmpty and CountBlocks of it
   br / cl = sequences of [id, b (block), m (metadata length)], rbr / rcl = ids of the result in order.

   What the statement leaves open is accepted: a refusal (ok = false) is no cut, so nothing is demanded of it.
*)
EXTENDS Integers, Sequences, FiniteSets, TLC, Json, IOUtils

Trace == ndJsonDeserialize(IOEnv.TRACE_FILE)

VARIABLES l,      \* next line
          K,      \* size constants (from the consts line)
          viol    \* accumulated violations

vars == <<l, K, viol>>

BIG == 2000000000
Val(x) == IF x[1] = 0 THEN x[2] ELSE IF x[1] = 1 THEN BIG - x[2] ELSE -1
Min(a, b) == IF a < b THEN a ELSE b
Max(a, b) == IF a > b THEN a ELSE b

CLAIMFACTOR100 == 20000     \* FEP: the proof grows by 200 bytes per claim

Init ==
  /\ TLCSet(1, 0)
  /\ l = 1 /\ viol = <<>>
  /\ K = [br100 |-> 0, cl100 |-> 0, sig100 |-> 0, prf100 |-> 0]

V(kind, info) == [t |-> l, l |-> l, inv |-> kind, info |-> info]
(* at most CAP violations are kept in full (the state would grow without bound on a badly broken build) *)
CAP == 100
Add(vs) == IF Len(viol) >= CAP THEN viol ELSE viol \o vs

EvConsts ==
  /\ l <= Len(Trace) /\ Trace[l].ev = "consts"
  /\ K' = [br100 |-> Trace[l].br100, cl100 |-> Trace[l].cl100, sig100 |-> Trace[l].sig100, prf100 |-> Trace[l].prf100]
  /\ l' = l + 1 /\ UNCHANGED viol

-----------------------------------------------------------------------------
(* events of the kept blocks, in their original order *)
Kept(s, f, t) == SelectSeq(s, LAMBDA e : f <= Val(e.b) /\ Val(e.b) <= t)
Ids(s) == [i \in 1..Len(s) |-> s[i].id]

RECURSIVE SumMeta(_)
SumMeta(s) == IF s = <<>> THEN 0 ELSE Head(s).m + SumMeta(Tail(s))

(* estimated size in hundredths of a byte: per bridge exit, per imported bridge exit, their metadata, and the
   signature (PP) or the proof + 200 bytes per claim (FEP) *)
Size100(br, cl, typ) ==
  K.br100 * Len(br) + K.cl100 * Len(cl) + 100 * (SumMeta(br) + SumMeta(cl))
  + (IF typ = "fep" THEN K.prf100 + CLAIMFACTOR100 * Len(cl) ELSE K.sig100)
(* The code sums floats and truncates; when the exact size is a whole number of bytes the float sum may fall just below
   it, so the size is known only up to that: SizeHi = exact floor, SizeLo = what the code may see at least. *)
SizeHi(br, cl, typ) == Size100(br, cl, typ) \div 100
SizeLo(br, cl, typ) == IF Size100(br, cl, typ) % 100 = 0 THEN SizeHi(br, cl, typ) - 1 ELSE SizeHi(br, cl, typ)

(* predicates common to every cut: e = the line, [f, t] the block range the result must cover *)
CutViol(e, f, t) ==
  LET rf == Val(e.rfrom)
      rt == Val(e.rto)
  IN (IF rf # f THEN <<V("SameFirstBlock", [want |-> f, got |-> e.rfrom])>> ELSE <<>>)
  \o (IF e.rbr # Ids(Kept(e.br, rf, rt))
      THEN <<V("ExactlyTheBridgesOfKeptBlocksInOrder", [want |-> Ids(Kept(e.br, rf, rt)), got |-> e.rbr])>> ELSE <<>>)
  \o (IF e.rcl # Ids(Kept(e.cl, rf, rt))
      THEN <<V("ExactlyTheClaimsOfKeptBlocksInOrder", [want |-> Ids(Kept(e.cl, rf, rt)), got |-> e.rcl])>> ELSE <<>>)
  \o (IF rt # t THEN <<V("EndsAtLargestPermittedBlock", [want |-> t, got |-> e.rto])>> ELSE <<>>)

EvSize ==
  /\ l <= Len(Trace) /\ Trace[l].ev = "size"
  /\ LET e == Trace[l]
         f == Val(e.from)
         t == Val(e.to)
         rt == Val(e.rto)
         fits(x) == e.max = 0 \/ SizeHi(Kept(e.br, f, x), Kept(e.cl, f, x), e.typ) <= e.max       \* surely within the limit
         over(x) == e.max # 0 /\ SizeLo(Kept(e.br, f, x), Kept(e.cl, f, x), e.typ) > e.max        \* surely over the limit
     IN
     IF ~e.ok THEN UNCHANGED viol
     ELSE viol' = Add(<<>>
          \o (IF Val(e.rfrom) # f THEN <<V("SameFirstBlock", [want |-> e.from, got |-> e.rfrom])>> ELSE <<>>)
          \o (IF ~(f <= rt /\ rt <= t) THEN <<V("EndsInsideTheFullRange", [from |-> e.from, to |-> e.to, got |-> e.rto])>> ELSE <<>>)
          \o (IF e.rbr # Ids(Kept(e.br, f, rt))
              THEN <<V("ExactlyTheBridgesOfKeptBlocksInOrder", [want |-> Ids(Kept(e.br, f, rt)), got |-> e.rbr])>> ELSE <<>>)
          \o (IF e.rcl # Ids(Kept(e.cl, f, rt))
              THEN <<V("ExactlyTheClaimsOfKeptBlocksInOrder", [want |-> Ids(Kept(e.cl, f, rt)), got |-> e.rcl])>> ELSE <<>>)
          \o (IF rt > f /\ over(rt)
              THEN <<V("OverTheSizeLimitOnlyAsSingleBlock", [max |-> e.max, size |-> SizeLo(Kept(e.br, f, rt), Kept(e.cl, f, rt), e.typ), got |-> e.rto])>>
              ELSE <<>>)
          \* the size grows with the last block, so "no later block is permitted" = "the next one is not"
          \o (IF f <= rt /\ rt < t /\ fits(rt + 1)
              THEN <<V("EndsAtLargestPermittedBlock", [max |-> e.max, got |-> e.rto,
                        sizeOfOneMore |-> SizeHi(Kept(e.br, f, rt + 1), Kept(e.cl, f, rt + 1), e.typ)])>>
              ELSE <<>>))
  /\ l' = l + 1 /\ UNCHANGED K

EvLimit ==
  /\ l <= Len(Trace) /\ Trace[l].ev = "limit"
  /\ LET e == Trace[l]
         f == Val(e.from)
         t == Val(e.to)
         lim == Val(e.limit)
         want == IF lim = 0 THEN t ELSE Min(t, lim)          \* last-block limit 0 = not configured
     IN IF ~e.ok THEN UNCHANGED viol ELSE viol' = Add(CutViol(e, f, want))
  /\ l' = l + 1 /\ UNCHANGED K

EvRange ==
  /\ l <= Len(Trace) /\ Trace[l].ev = "range"
  /\ LET e == Trace[l]
         f == Val(e.f)
         t == Val(e.t)
     IN IF ~e.ok THEN UNCHANGED viol
        ELSE IF Val(e.from) <= f /\ f <= t /\ t <= Val(e.to)
        THEN viol' = Add(CutViol(e, f, t))
        ELSE \* a request outside the certificate: only "the events of the blocks it covers" applies to whatever is returned
             viol' = Add(CutViol(e, Val(e.rfrom), Val(e.rto)))
  /\ l' = l + 1 /\ UNCHANGED K

EvGap ==
  /\ l <= Len(Trace) /\ Trace[l].ev = "gap"
  /\ LET e == Trace[l]
         af == Val(e.a[1])
         at == Val(e.a[2])
         bf == Val(e.b[1])
         bt == Val(e.b[2])
         touch == at + 1 >= bf /\ bt + 1 >= af
         wf == Min(at, bt) + 1
         wt == Max(af, bf) - 1
     IN
     IF ~(af <= at /\ bf <= bt) THEN UNCHANGED viol        \* not two block ranges: nothing is said
     ELSE IF touch
     THEN viol' = Add(IF ~e.empty THEN <<V("NoGapBetweenTouchingOrOverlappingRanges", [a |-> e.a, b |-> e.b, got |-> e.g])>> ELSE <<>>)
     ELSE viol' = Add(<<>>
          \o (IF e.empty THEN <<V("GapReportedBetweenSeparatedRanges", [a |-> e.a, b |-> e.b, got |-> e.g])>> ELSE <<>>)
          \o (IF Val(e.g[1]) # wf \/ Val(e.g[2]) # wt
              THEN <<V("GapIsExactlyTheBlocksStrictlyBetween", [a |-> e.a, b |-> e.b, got |-> e.g])>> ELSE <<>>)
          \o (IF Val(e.count) # wt - wf + 1
              THEN <<V("GapCountsTheBlocksStrictlyBetween", [a |-> e.a, b |-> e.b, got |-> e.count])>> ELSE <<>>))
  /\ l' = l + 1 /\ UNCHANGED K

(* VerifyBlockRangeGaps: the blocks a last certificate stands for are its own range, or - when it is in error - the blocks
   before it; a new range that touches or overlaps them has no gap (nothing is looked up), otherwise exactly the blocks
   strictly between are looked up *)
EvVGap ==
  /\ l <= Len(Trace) /\ Trace[l].ev = "vgap"
  /\ LET e == Trace[l]
         af == Val(e.a[1])
         at == Val(e.a[2])
         cf == IF e.mode = 2 THEN 0 ELSE af
         ct == IF e.mode = 2 THEN Max(af - 1, 0) ELSE at
         nf == Val(e.b[1])
         nt == Val(e.b[2])
         touch == nt + 1 >= cf /\ ct + 1 >= nf
     IN
     IF ~(af <= at /\ nf <= nt) THEN UNCHANGED viol
     ELSE IF touch
     THEN viol' = Add(IF e.asked THEN <<V("NoGapBetweenTouchingOrOverlappingRanges", [last |-> e.a, mode |-> e.mode, new |-> e.b, lookedup |-> e.q])>> ELSE <<>>)
     ELSE viol' = Add(IF ~e.asked \/ Val(e.q[1]) # Min(nt, ct) + 1 \/ Val(e.q[2]) # Max(nf, cf) - 1
                      THEN <<V("GapIsExactlyTheBlocksStrictlyBetween", [last |-> e.a, mode |-> e.mode, new |-> e.b, asked |-> e.asked, lookedup |-> e.q])>>
                      ELSE <<>>)
  /\ l' = l + 1 /\ UNCHANGED K

Finish ==
  /\ l = Len(Trace) + 1
  /\ PrintT(<<"VIOL", ToJson(viol)>>)
  /\ PrintT(<<"DONE", ToJson([lines |-> Len(Trace)])>>)
  /\ l' = l + 1 /\ UNCHANGED <<K, viol>>

Next == EvConsts \/ EvSize \/ EvLimit \/ EvRange \/ EvGap \/ EvVGap \/ Finish
Spec == Init /\ [][Next]_vars

HW == TLCSet(1, IF l > TLCGet(1) THEN l ELSE TLCGet(1))
Accepted == TLCGet(1) = Len(Trace) + 2
=============================================================================
