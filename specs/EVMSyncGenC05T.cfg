\* C05 behaviour export (edge cover), thorough tier: chunk sizes 1..3
CONSTANTS
  N = 3
  Chunks = {1,2,3}
  TipTags = {"latest","finalized"}
  BufCap = 1
  MaxForks = 0
  MaxFails = 1
  MaxPFails = 1
  MaxRestarts = 0
  Detector = FALSE
  RetryLimit = 5
  AtomicRemove = FALSE
  RemoveByHash = FALSE
  LockedRemove = TRUE
  InconsOnFault = FALSE
  Contents = {0,1}
  FinLag = 0
  NoIdle = FALSE
  SimDepth = 0
INIT Init
NEXT Next
VIEW view
ACTION_CONSTRAINT Dump
CHECK_DEADLOCK FALSE
