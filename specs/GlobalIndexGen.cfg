\* case export: all 2*2^4*2^4 zero/non-zero byte patterns at the real part size (4 bytes)
CONSTANTS
  Bs = {2}
  Ps = {4}
  Slack = 2
INIT Init
NEXT Next
ACTION_CONSTRAINT Dump
CHECK_DEADLOCK FALSE
