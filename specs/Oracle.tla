---------------------------------- MODULE Oracle ----------------------------------
(* Implementation-shaped specification of aggoracle/oracle.go (property C15).

   One action, Tick, is one call of processLatestGER(ctx, &blockNumToFetch) from the Start loop: getLastFinalizedGER
   (L1 client only when the cell is 0, then the L1-info store), the assignment to the cell, IsGERInjected, InjectGER.
   Each dependency may fail (finite budget).  The environment actions are the L1 chain (Mine with info-tree leaves,
   Finalize, Reorg above the finalized block), the L1-info syncer (Sync; it may be behind or ahead of the finalized
   block; SyncFail: a block whose COMMIT fails and is retried later) and another party putting a root on L2 (Ext).

   `target` is the loop's state cell `blockNumToFetch`.  What happens to it when getLastFinalizedGER fails is the
   constant Rule (the function returns blockNum = the block it asked the store for, 0 if the L1 client failed):

     "code"      the code as it is: `if err != nil { return err }` comes BEFORE `*blockNumToFetch = blockNum`,
                 so the cell keeps its old value - and since the only assignment left stores 0, the cell is 0 forever
                 (finding F3: the sampled block is never kept).
     "naive"     assignment moved above the error test: the cell keeps the sampled block on every store error.
     "proposed"  first repair candidate: `if errors.Is(err, ErrBlockNotProcessed) { *cell = blockNum }; return err`
                 (keep on ErrBlockNotProcessed, leave the cell alone otherwise).
     "fixed"     keep on ErrBlockNotProcessed, reset the cell to 0 on every other error.
   Fixed == (Rule = "fixed").

   Two shapes of L1, chosen by Treadmill:

     FALSE  bounded L1: blocks 1..MaxBlock, at most MaxLeaves leaves, numbers are absolute.  Used for the exhaustive
            safety run and for the behaviour export (edge cover) that is replayed into the real AggOracle.  Liveness
            can be checked here too, but a bounded L1 always ends with F = S = H, which hides F3 (starvation needs
            the finalized head to run away for ever).
     TRUE   treadmill: an unbounded L1 seen through a sliding window.  After every step the state is translated so
            that base = min(F, S, target if set) sits at 1, and leaves at/below base are forgotten except the latest
            one (every block the oracle can ask for in the future is >= base, so only the latest leaf at/below base can
            ever be returned; GER values of forgotten leaves are recycled).  This quotient is exact for the oracle's
            behaviour.  The only restriction is the window: H - base < MaxBlock, i.e. the slowest of finalized head,
            syncer and kept target is never more than MaxBlock-1 blocks behind the L1 head, and at most MaxLeaves
            leaves sit above base.  It therefore shows starvation / recovery for every lag pattern that fits the
            window; it does not show anything about larger lags (the replayed long schedules on the real code and the
            bounded-response predicate of OracleTrace.tla cover lag as a parameter).  No state constraint is used.
*)
EXTENDS Integers, Sequences, FiniteSets, TLC, Json

CONSTANTS Rule,        \* "code" | "naive" | "proposed" | "fixed"
          StoreRead,   \* how GetLatestInfoUntilBlock reads the store: "snapshot" (one read transaction, the code) | "tworeads"
                       \* (a design TLC refutes, OracleTwoReads.cfg: last processed block and newest leaf read separately, the
                       \* newest leaf taken without a block filter when the block asked for is the last processed one - the syncer
                       \* can commit blocks in between)
          Treadmill,   \* BOOLEAN, see above
          Record,      \* BOOLEAN: keep the behaviour history (export runs only)
          MaxBlock, MaxLeaves, Gers,
          MaxFail,     \* total number of dependency failures in a behaviour
          MaxReorg, MaxExt

ASSUME Rule \in {"code", "naive", "proposed", "fixed"}
Fixed == Rule = "fixed"

VARIABLES H,           \* L1 head
          F,           \* block carrying the configured finality (what HeaderByNumber(<finality tag>) answers)
          S,           \* last block processed by the L1-info syncer
          leaves,      \* L1 info tree: sequence of [blk, g] in tree order (blk non-decreasing, g = GER value)
          l2,          \* GERs present on L2
          target,      \* the cell blockNumToFetch
          dirty,       \* block whose ProcessBlock failed at COMMIT and has not been retried / reorged yet (0 = none):
                       \* nothing of it is stored, so the code as written behaves as if it had never been tried
          fails, reorgs, exts,     \* budgets used
          last,        \* ghost: outcome of the last step if it was a Tick (what the invariants talk about)
          hist         \* behaviour history for export (hidden by VIEW; constant unless Record)

vars == <<H, F, S, leaves, l2, target, dirty, fails, reorgs, exts, last, hist>>
view == <<H, F, S, leaves, l2, target, dirty, fails, reorgs, exts, last>>

NoTick == [res |-> "none", t |-> 0, g |-> 0, was |-> FALSE]

Max(s) == CHOOSE x \in s : \A y \in s : y <= x
Min(s) == CHOOSE x \in s : \A y \in s : x <= y

LeavesUpToIn(ls, b) == { i \in 1..Len(ls) : ls[i].blk <= b }
LeavesUpTo(b)       == LeavesUpToIn(leaves, b)
LatestGer(b)        == leaves[Max(LeavesUpTo(b))].g            \* ORDER BY block_num DESC, block_pos DESC LIMIT 1
GersOf(ls)          == { ls[i].g : i \in 1..Len(ls) }

-----------------------------------------------------------------------------
(* the treadmill quotient *)
Cur == [H |-> H, F |-> F, S |-> S, leaves |-> leaves, l2 |-> l2, target |-> target]

Norm(n) ==
  LET b    == Min({n.F, n.S} \cup (IF n.target = 0 THEN {} ELSE {n.target}))
      d    == IF b > 1 THEN b - 1 ELSE 0
      dead == LeavesUpToIn(n.leaves, b)                         \* a prefix of the sequence
      from == IF dead = {} THEN 1 ELSE Max(dead)
      kept == SubSeq(n.leaves, from, Len(n.leaves))
      ls   == [i \in 1..Len(kept) |-> [blk |-> IF kept[i].blk - d < 1 THEN 1 ELSE kept[i].blk - d, g |-> kept[i].g]]
  IN [H |-> n.H - d, F |-> n.F - d, S |-> n.S - d, leaves |-> ls, l2 |-> n.l2 \cap GersOf(ls),
      target |-> IF n.target = 0 THEN 0 ELSE n.target - d]

Commit(n, lst, ev) ==
  LET m == IF Treadmill THEN Norm(n) ELSE n IN
  /\ H' = m.H /\ F' = m.F /\ S' = m.S /\ leaves' = m.leaves /\ l2' = m.l2 /\ target' = m.target
  /\ last' = IF Treadmill THEN [lst EXCEPT !.t = 0] ELSE lst
  /\ hist' = IF Record THEN Append(hist, ev) ELSE hist

-----------------------------------------------------------------------------
Init ==
  /\ H = 0 /\ F = 0 /\ S = 0 /\ leaves = <<>> /\ l2 = {} /\ target = 0 /\ dirty = 0
  /\ fails = 0 /\ reorgs = 0 /\ exts = 0 /\ last = NoTick /\ hist = <<>>

(* a new L1 block carrying 0..2 info-tree leaves (leaves only ever appear in new blocks, above the finalized one) *)
LeafLists == {<<>>} \cup { <<a>> : a \in Gers } \cup { <<a, b>> : a \in Gers, b \in Gers }
Mine(ls) ==
  /\ H < MaxBlock
  /\ Len(leaves) + Len(ls) <= MaxLeaves
  /\ \A i \in 1..Len(ls) : ls[i] \notin GersOf(leaves)      \* the info tree never holds the same GER twice
  /\ Len(ls) = 2 => ls[1] # ls[2]                           \* (l1info_leaf.global_exit_root is UNIQUE in the store)
  /\ Commit([Cur EXCEPT !.H = H + 1,
                        !.leaves = leaves \o [i \in 1..Len(ls) |-> [blk |-> H + 1, g |-> ls[i]]]],
            NoTick, [a |-> "mine", leaves |-> ls])
  /\ UNCHANGED <<dirty, fails, reorgs, exts>>

Finalize(to) ==
  /\ F < to /\ to <= H
  /\ Commit([Cur EXCEPT !.F = to], NoTick, [a |-> "fin", to |-> to])
  /\ UNCHANGED <<dirty, fails, reorgs, exts>>

Sync(to) ==
  /\ S < to /\ to <= H
  /\ Commit([Cur EXCEPT !.S = to], NoTick, [a |-> "sync", to |-> to])
  /\ dirty' = 0
  /\ UNCHANGED <<fails, reorgs, exts>>

(* the syncer processes S+1..to, and the COMMIT of ProcessBlock(to) fails (transient DB error): the blocks before `to`
   are stored, nothing of block `to` is; a later Sync retries it.  Counts as one of the dependency failures.
   (`dirty` is kept only in the bounded shape: it exists to make "a commit just failed for this block" a state of its
   own, so that the exported edge cover continues with ticks from there.) *)
SyncFail(to) ==
  /\ S < to /\ to <= H /\ fails < MaxFail
  /\ Commit([Cur EXCEPT !.S = to - 1], NoTick, [a |-> "sync", to |-> to, failcommit |-> TRUE])
  /\ dirty' = IF Treadmill THEN 0 ELSE to
  /\ fails' = fails + 1 /\ UNCHANGED <<reorgs, exts>>

(* L1 reorg of non-final blocks; the syncer follows at once *)
Reorg(from) ==
  /\ reorgs < MaxReorg /\ F < from /\ from <= H
  /\ Commit([Cur EXCEPT !.H = from - 1, !.S = IF S < from THEN S ELSE from - 1,
                        !.leaves = SelectSeq(leaves, LAMBDA x : x.blk < from)],
            NoTick, [a |-> "reorg", from |-> from])
  /\ dirty' = 0
  /\ reorgs' = reorgs + 1 /\ UNCHANGED <<fails, exts>>

(* somebody else puts a root on L2 *)
Ext(g) ==
  /\ exts < MaxExt /\ g \in GersOf(leaves) /\ g \notin l2
  /\ Commit([Cur EXCEPT !.l2 = l2 \cup {g}], NoTick, [a |-> "ext", g |-> g])
  /\ exts' = exts + 1 /\ UNCHANGED <<dirty, fails, reorgs>>

-----------------------------------------------------------------------------
(* processLatestGER *)

(* the cell after getLastFinalizedGER returned (blockNum, err) with blockNum = t (0 when the L1 client failed) *)
CellOnError(err, t) ==
  CASE Rule = "code"     -> target
    [] Rule = "naive"    -> t
    [] Rule = "proposed" -> IF err = "notprocessed" THEN t ELSE target
    [] Rule = "fixed"    -> IF err = "notprocessed" THEN t ELSE 0

TickOutS(r, cell, newl2, t, g, f, s2) ==
  /\ Commit([Cur EXCEPT !.target = cell, !.l2 = newl2, !.S = s2],
            [res |-> r, t |-> t, g |-> g, was |-> g \in l2],
            [a |-> "tick", fail |-> f, res |-> r, cell |-> cell])
  /\ fails' = IF f = "none" THEN fails ELSE fails + 1
  /\ UNCHANGED <<dirty, reorgs, exts>>
TickOut(r, cell, newl2, t, g, f) == TickOutS(r, cell, newl2, t, g, f, S)

Tick ==
  LET t   == IF target = 0 THEN F ELSE target                   \* getLastFinalizedGER: sample only when the cell is 0
      ans == IF t = 0 THEN "noblock0"                           \* processor.GetLatestInfoUntilBlock
             ELSE IF S < t THEN "notprocessed"
             ELSE IF LeavesUpTo(t) = {} THEN "notfound" ELSE "leaf"
      g   == IF ans = "leaf" THEN LatestGer(t) ELSE 0
      canFail == fails < MaxFail
  IN
  \/ /\ target = 0 /\ canFail /\ TickOut("err_l1", CellOnError("err_l1", 0), l2, 0, 0, "l1")
  \/ /\ t # 0 /\ canFail      /\ TickOut("err_sync", CellOnError("err_sync", t), l2, t, 0, "sync")
  \/ /\ ans # "leaf"          /\ TickOut(ans, CellOnError(ans, t), l2, t, 0, "none")
  \/ /\ ans = "leaf" /\ canFail               /\ TickOut("err_isinj", 0, l2, t, g, "isinj")
  \/ /\ ans = "leaf" /\ g \in l2              /\ TickOut("present", 0, l2, t, g, "none")
  \/ /\ ans = "leaf" /\ g \notin l2 /\ canFail /\ TickOut("err_inject", 0, l2, t, g, "inject")
  \/ /\ ans = "leaf" /\ g \notin l2           /\ TickOut("inject", 0, l2 \cup {g}, t, g, "none")
  \* the refuted design: two separate reads, the syncer commits up to block s2 between them
  \/ /\ StoreRead = "tworeads" /\ ans = "leaf" /\ S = t /\ dirty = 0
     /\ \E s2 \in (S + 1)..H :
          LET g2 == LatestGer(s2) IN
          \/ g2 \in l2    /\ TickOutS("present", 0, l2, t, g2, "none", s2)
          \/ g2 \notin l2 /\ TickOutS("inject", 0, l2 \cup {g2}, t, g2, "none", s2)

SyncStep     == \E to \in 1..MaxBlock : Sync(to)
SyncFailStep == \E to \in 1..MaxBlock : SyncFail(to)
FinalizeStep == \E to \in 1..MaxBlock : Finalize(to)
Next ==
  \/ \E ls \in LeafLists : Mine(ls)
  \/ FinalizeStep \/ SyncStep \/ SyncFailStep
  \/ \E from \in 1..MaxBlock : Reorg(from)
  \/ \E g \in Gers : Ext(g)
  \/ Tick

Spec == Init /\ [][Next]_vars

-----------------------------------------------------------------------------
(* C15, safety part, as invariants of the design (bounded shape) *)

TypeOK == /\ F <= H /\ S <= H /\ target <= F
          /\ \A i \in 1..(Len(leaves) - 1) : leaves[i].blk <= leaves[i + 1].blk
          /\ l2 \subseteq Gers
          /\ dirty # 0 => (dirty = S + 1 /\ dirty <= H)

(* an InjectGER call carries the latest root at/below a block that was final when it was sampled, and that root
   was not on L2 *)
SafeInject ==
  last.res \in {"inject", "err_inject"} =>
     /\ last.t >= 1 /\ last.t <= F
     /\ LeavesUpTo(last.t) # {} /\ last.g = LatestGer(last.t)
     /\ ~last.was

(* the cell only ever holds a block that was final when sampled *)
TargetFinal == target # 0 => (target >= 1 /\ target <= F)

(* F3 in one line: as coded, the cell never holds anything *)
CellDead == Rule = "code" => target = 0

-----------------------------------------------------------------------------
(* C15, liveness part.  Pending: the newest root at/below the finalized block is not on L2.
   Under weak fairness of the oracle's tick and of the syncer (the finalized head is NOT assumed to be fair: it may
   stop or run), and with finitely many dependency failures (MaxFail), a pending root leads to an injection, unless
   it stops being pending for another reason (somebody else injected it, or a newer final root is already on L2).
   Holds for Rule = "fixed"; TLC gives a lasso for "code" (treadmill), "naive" and "proposed" (both shapes). *)
Pending  == LeavesUpTo(F) # {} /\ LatestGer(F) \notin l2
Injected == last.res = "inject"
Live     == Pending ~> (Injected \/ ~Pending)

Fairness == WF_vars(Tick) /\ WF_vars(SyncStep)
LiveSpec == Init /\ [][Next]_vars /\ Fairness

-----------------------------------------------------------------------------
(* behaviour export: one full path per generated transition *)
Dump == PrintT(<<"CASE", ToJson([rule |-> Rule, steps |-> hist'])>>)
=============================================================================
