------------------------------ MODULE BridgeAPITrace ------------------------------
(* Property-level monitor for C12, evaluated by TLC on traces recorded from the real bridge service
   (bridgeservice.New over the real L1/L2 bridge stores, the real L1 info store and the real injected-GER store; requests
   sent through the real gin routes).  It contains only what the property says; it knows nothing about binary searches,
   midpoints, bestResult or how proofs are assembled.

   Trace lines (ndjson, see harness/areas/bridgeapi):
     {"ev":"reset","t":T,"ours":N}                       a new node; N = network id served by the API
     {"ev":"l2","atoms":[..]}                            deposits recorded by the L2 bridge store (leaf atoms, in order)
     {"ev":"block","num":B,"evs":[..]}                   an L1 block recorded by the L1 bridge store and the L1 info store:
                                                           {"t":"dep","x":A}     deposit on the L1 bridge (leaf atom A)
                                                           {"t":"info"}          new L1 info leaf (MER/RER = the roots now)
                                                           {"t":"ver","r":R,"k":K} verified batches of rollup R; for R = ours the
                                                                                 exit root is the L2 tree over its first K leaves
     {"ev":"inject","idx":[..]}                          L1 info leaves whose GER was recorded as injected on the L2
     {"ev":"reorg","from":B,"inj":[..]}                  both L1 stores were told to forget the blocks >= B (Reorg of their processors);
                                                           inj = the leaves whose GER is still recorded as injected on the L2
     {"ev":"snap","s":{index, proofs, injected}}         HTTP answers (status, every hash as a structural name)

   Names (harness/names): [t |-> "s", h, ls |-> atoms] subtree of an append-only exit tree, [t |-> "u", h, ls |-> <<pos, atom>>..]
   subtree of the rollup exit tree, "z" zero subtree, "unk" anything else.  Equal names <=> equal hashes.
   Siblings that are the zero hash of their own height are elided by the driver.

   Covers(net, leaf, dc) -- the L1 info leaf's exit roots cover the bridge (net, dc):
     net = 0     the leaf's mainnet exit root is the root of the L1 exit tree with more than dc leaves
     net = ours  the leaf's rollup exit root commits at position ours-1 to the root of the L2 exit tree with more than dc leaves

   Predicates (violations are accumulated, every line is consumed):
     IndexCovers   /l1-info-tree-index answered 200 with an index: that leaf exists and covers the bridge (an error is accepted)
     ProofFolds    /claim-proof for a recorded bridge and a covering leaf: answered 200, the leaf data are those of that leaf,
                   the local proof is the sibling list of the bridge's leaf under the LER/MER that the leaf commits to, and
                   (L2) the rollup proof is the sibling list of that LER under the leaf's rollup exit root  (=> both fold)
     InjectedLeaf  /injected-l1-info-leaf answered 200: the leaf is the history's leaf of its index, at/after the requested
                   index, and (L2) one whose GER was injected -- so the flow's next step is judged by ProofFolds
   Soft (counted in DONE, never a violation): the lookup answered an error although a processed leaf covers the bridge. *)
EXTENDS Integers, Sequences, FiniteSets, TLC, Json, IOUtils

Trace == ndJsonDeserialize(IOEnv.TRACE_FILE)

VARIABLES l, t, ours,
          blocks,     \* L1 history: sequence of [num, evs]
          l2,         \* atoms of the deposits recorded by the L2 bridge store
          inj,        \* set of injected leaf indexes
          stats,      \* counters (evidence)
          soft,       \* first few soft observations
          viol

vars == <<l, t, ours, blocks, l2, inj, stats, soft, viol>>

TreeH == 32
P2(h) == IF h >= 20 THEN 1048576 ELSE 2 ^ h
Min(a, b) == IF a < b THEN a ELSE b

(* ---- names (as in StoreTrace.tla) ---- *)
ZeroName(h) == [t |-> "z", h |-> h, ls |-> <<>>]
SubName(atoms, m, h, k) ==
  LET lo == k * P2(h) IN
  IF (h >= 20 /\ k > 0) \/ lo >= m THEN ZeroName(h)
  ELSE [t |-> "s", h |-> h, ls |-> SubSeq(atoms, lo + 1, Min(m, lo + P2(h)))]
SibK(p, h) == LET k == p \div P2(h) IN IF h >= 20 THEN 1 ELSE IF k % 2 = 1 THEN k - 1 ELSE k + 1
ExpSibs(atoms, m, p) ==
  LET all == [h \in 0..(TreeH - 1) |-> SubName(atoms, m, h, SibK(p, h))]
  IN SelectSeq([i \in 1..TreeH |-> <<i - 1, all[i - 1]>>], LAMBDA e : e[2].t # "z")
SortedPairs(S) ==
  LET n == Cardinality(S)
      rank(e) == Cardinality({d \in S : d[1] < e[1]}) + 1
  IN [i \in 1..n |-> CHOOSE e \in S : rank(e) = i]
UName(f, h, k) ==
  LET lo == k * P2(h)
      inside == { pos \in DOMAIN f : (h >= 20 /\ k = 0) \/ (h < 20 /\ pos >= lo /\ pos < lo + P2(h)) } IN
  IF inside = {} \/ (h >= 20 /\ k > 0) THEN ZeroName(h)
  ELSE [t |-> "u", h |-> h, ls |-> SortedPairs({ <<pos - lo, f[pos]>> : pos \in inside })]
ExpUSibs(f, pos) ==
  LET all == [h \in 0..(TreeH - 1) |-> UName(f, h, SibK(pos, h))]
  IN SelectSeq([i \in 1..TreeH |-> <<i - 1, all[i - 1]>>], LAMBDA e : e[2].t # "z")

(* ---- the history: what exists when the snapshot is taken ---- *)
RECURSIVE FlatFrom(_, _)
FlatFrom(bs, n) == IF n > Len(bs) THEN <<>>
                   ELSE [p \in 1..Len(bs[n].evs) |-> [b |-> bs[n].num, p |-> p - 1, e |-> bs[n].evs[p]]] \o FlatFrom(bs, n + 1)
EmptyF == [x \in {} |-> 0]
(* the exit-root atom of rollup r after its k-th value (the driver's convention) *)
Atom(r, k) == 100 * r + k

(* hs = [atoms, f, infos]: L1 leaf atoms, rollup exit tree (position -> k), info leaves [idx, b, p, mer, f] *)
RECURSIVE Scan(_, _)
Scan(es, hs) ==
  IF es = <<>> THEN hs
  ELSE LET x == Head(es)
           e == x.e IN
       Scan(Tail(es),
            CASE e.t = "dep"  -> [hs EXCEPT !.atoms = Append(@, e.x)]
              [] e.t = "info" -> [hs EXCEPT !.infos = Append(@, [idx |-> Len(hs.infos), b |-> x.b, p |-> x.p, mer |-> Len(hs.atoms), f |-> hs.f])]
              [] e.t = "ver"  -> IF e.k = 0 THEN hs ELSE [hs EXCEPT !.f = ((e.r - 1) :> e.k) @@ hs.f]
              [] OTHER        -> hs)
Hist == Scan(FlatFrom(blocks, 1), [atoms |-> <<>>, f |-> EmptyF, infos |-> <<>>])

Pos == ours - 1
Covers(net, info, dc) == IF net = 0 THEN info.mer > dc ELSE Pos \in DOMAIN info.f /\ info.f[Pos] > dc
Recorded(hs, net) == IF net = 0 THEN 0..(Len(hs.atoms) - 1) ELSE 0..(Len(l2) - 1)
AtomsF(f) == [pos \in DOMAIN f |-> Atom(pos + 1, f[pos])]
MerName(hs, info) == IF info.mer = 0 THEN ZeroName(0) ELSE SubName(hs.atoms, info.mer, TreeH, 0)
RerName(info)     == IF DOMAIN info.f = {} THEN ZeroName(TreeH) ELSE UName(AtomsF(info.f), TreeH, 0)
LeafIs(hs, lf, i) == /\ i + 1 \in DOMAIN hs.infos
                     /\ LET info == hs.infos[i + 1] IN
                        lf.idx = i /\ lf.b = info.b /\ lf.p = info.p /\ lf.mer = MerName(hs, info) /\ lf.rer = RerName(info)

V(pred, info) == [t |-> t, l |-> l, inv |-> pred, info |-> info]

SnapViolations(s) ==
  LET hs == Hist
      nets == {0, ours}
      \* ---- /l1-info-tree-index
      badIdx == { i \in DOMAIN s.index :
                    LET q == s.index[i] IN
                    q.st = 200 /\ ~(q.idx + 1 \in DOMAIN hs.infos /\ Covers(q.net, hs.infos[q.idx + 1], q.dc)) }
      vIdx == IF badIdx = {} THEN <<>>
              ELSE LET i == CHOOSE j \in badIdx : \A k \in badIdx : j <= k IN
                   <<V("IndexCovers", [q |-> s.index[i],
                                       infos |-> [j \in DOMAIN hs.infos |-> [mer |-> hs.infos[j].mer, f |-> hs.infos[j].f, b |-> hs.infos[j].b]]])>>
      wantIdx == UNION { { <<net, dc>> : dc \in Recorded(hs, net) } : net \in nets }
      gotIdx  == { <<s.index[i].net, s.index[i].dc>> : i \in DOMAIN s.index }
      \* ---- /claim-proof
      wantPr == UNION { { <<net, dc, i - 1>> : dc \in Recorded(hs, net), i \in DOMAIN hs.infos } : net \in nets }
      covPr  == { w \in wantPr : Covers(w[1], hs.infos[w[3] + 1], w[2]) }
      gotPr  == { <<s.proofs[i].net, s.proofs[i].dc, s.proofs[i].i>> : i \in DOMAIN s.proofs }
      badPr  == { n \in DOMAIN s.proofs :
                    LET q == s.proofs[n] IN
                    <<q.net, q.dc, q.i>> \in covPr /\
                    LET info == hs.infos[q.i + 1] IN
                    ~( /\ q.st = 200
                       /\ LeafIs(hs, q.leaf, q.i)
                       /\ IF q.net = 0
                          THEN q.pl = ExpSibs(hs.atoms, info.mer, q.dc)
                          ELSE /\ q.pl = ExpSibs(l2, info.f[Pos], q.dc)
                               /\ q.pr = ExpUSibs(AtomsF(info.f), Pos) ) }
      vPr == IF badPr = {} THEN <<>>
             ELSE LET n == CHOOSE j \in badPr : \A k \in badPr : j <= k
                      q == s.proofs[n]
                      info == hs.infos[q.i + 1] IN
                  <<V("ProofFolds", [q |-> q, leaf |-> [mer |-> info.mer, f |-> info.f],
                                     wantLocal |-> IF q.net = 0 THEN ExpSibs(hs.atoms, info.mer, q.dc) ELSE ExpSibs(l2, info.f[Pos], q.dc),
                                     wantRollup |-> IF q.net = 0 THEN <<>> ELSE ExpUSibs(AtomsF(info.f), Pos),
                                     wantMer |-> MerName(hs, info), wantRer |-> RerName(info)])>>
      \* ---- /injected-l1-info-leaf
      badInj == { n \in DOMAIN s.injected :
                    LET q == s.injected[n] IN
                    q.st = 200 /\ ~( /\ q.leaf.idx >= q.i
                                     /\ LeafIs(hs, q.leaf, q.leaf.idx)
                                     /\ (q.net # 0 => q.leaf.idx \in inj) ) }
      vInj == IF badInj = {} THEN <<>>
              ELSE LET n == CHOOSE j \in badInj : \A k \in badInj : j <= k IN
                   <<V("InjectedLeaf", [q |-> s.injected[n], injected |-> inj])>>
      \* ---- the driver asked everything it should have / names were unambiguous
      vInfra == (IF wantIdx \subseteq gotIdx /\ covPr \subseteq gotPr THEN <<>>
                 ELSE <<V("INFRA-Incomplete", [index |-> wantIdx \ gotIdx, proofs |-> covPr \ gotPr])>>)
                \o (IF "ambiguous" \in DOMAIN s THEN <<V("INFRA-AmbiguousNames", s.ambiguous)>> ELSE <<>>)
  IN vIdx \o vPr \o vInj \o vInfra

(* lookups that answered an error although a processed leaf covers the bridge (soft) *)
SoftOf(s) ==
  LET hs == Hist IN
  SelectSeq(s.index, LAMBDA q : q.st # 200 /\ q.dc \in Recorded(hs, q.net) /\ \E j \in DOMAIN hs.infos : Covers(q.net, hs.infos[j], q.dc))

StatsOf(s) ==
  LET hs == Hist
      sf == SoftOf(s) IN
  [snaps |-> 1,
   idxOk |-> Cardinality({i \in DOMAIN s.index : s.index[i].st = 200}),
   idxErr |-> Cardinality({i \in DOMAIN s.index : s.index[i].st # 200}),
   idxErrCovered |-> Len(sf),
   idxNotYetCovered |-> Len(SelectSeq(sf, LAMBDA q : q.ec = "notyet")),
   proofsJudged |-> Cardinality({n \in DOMAIN s.proofs : LET q == s.proofs[n] IN
                                   q.i + 1 \in DOMAIN hs.infos /\ q.dc \in Recorded(hs, q.net) /\ Covers(q.net, hs.infos[q.i + 1], q.dc)}),
   proofsL2 |-> Cardinality({n \in DOMAIN s.proofs : LET q == s.proofs[n] IN
                                   q.net # 0 /\ q.i + 1 \in DOMAIN hs.infos /\ q.dc \in Recorded(hs, q.net) /\ Covers(q.net, hs.infos[q.i + 1], q.dc)}),
   injOk |-> Cardinality({n \in DOMAIN s.injected : s.injected[n].st = 200})]

ZeroStats == [snaps |-> 0, idxOk |-> 0, idxErr |-> 0, idxErrCovered |-> 0, idxNotYetCovered |-> 0, proofsJudged |-> 0, proofsL2 |-> 0, injOk |-> 0]
AddStats(a, b) == [k \in DOMAIN a |-> a[k] + b[k]]

-----------------------------------------------------------------------------
Init ==
  /\ TLCSet(1, 0)
  /\ l = 1 /\ t = 0 /\ ours = 1 /\ blocks = <<>> /\ l2 = <<>> /\ inj = {} /\ stats = ZeroStats /\ soft = <<>> /\ viol = <<>>

Ev(e) == l <= Len(Trace) /\ Trace[l].ev = e

EvReset ==
  /\ Ev("reset")
  /\ t' = Trace[l].t /\ ours' = Trace[l].ours /\ blocks' = <<>> /\ l2' = <<>> /\ inj' = {}
  /\ l' = l + 1 /\ UNCHANGED <<stats, soft, viol>>

EvL2 ==
  /\ Ev("l2")
  /\ l2' = l2 \o Trace[l].atoms
  /\ l' = l + 1 /\ UNCHANGED <<t, ours, blocks, inj, stats, soft, viol>>

EvBlock ==
  /\ Ev("block")
  /\ blocks' = Append(blocks, [num |-> Trace[l].num, evs |-> Trace[l].evs])
  \* the history must be a chain: block numbers increase
  /\ viol' = viol \o (IF blocks # <<>> /\ Trace[l].num <= blocks[Len(blocks)].num
                      THEN <<V("INFRA-BlockOrder", Trace[l].num)>> ELSE <<>>)
  /\ l' = l + 1 /\ UNCHANGED <<t, ours, l2, inj, stats, soft>>

(* the L1 was reorged: both L1 stores were told to forget the blocks >= from (the service keeps running) *)
EvReorg ==
  /\ Ev("reorg")
  /\ blocks' = SelectSeq(blocks, LAMBDA b : b.num < Trace[l].from)
  /\ inj' = { Trace[l].inj[i] : i \in DOMAIN Trace[l].inj }      \* leaves whose GER is still recorded as injected on the L2
  /\ l' = l + 1 /\ UNCHANGED <<t, ours, l2, stats, soft, viol>>

EvInject ==
  /\ Ev("inject")
  /\ inj' = inj \cup { Trace[l].idx[i] : i \in DOMAIN Trace[l].idx }
  /\ l' = l + 1 /\ UNCHANGED <<t, ours, blocks, l2, stats, soft, viol>>

EvSnap ==
  /\ Ev("snap")
  /\ LET s == Trace[l].s
         sf == SoftOf(s) IN
     /\ viol' = viol \o SnapViolations(s)
     /\ stats' = AddStats(stats, StatsOf(s))
     /\ soft' = IF Len(soft) < 5 /\ sf # <<>> THEN Append(soft, [t |-> t, l |-> l, q |-> sf[1]]) ELSE soft
  /\ l' = l + 1 /\ UNCHANGED <<t, ours, blocks, l2, inj>>

Finish ==
  /\ l = Len(Trace) + 1
  /\ PrintT(<<"VIOL", ToJson(viol)>>)
  /\ PrintT(<<"DONE", ToJson([lines |-> Len(Trace), traces |-> t, stats |-> stats, soft |-> soft])>>)
  /\ l' = l + 1 /\ UNCHANGED <<t, ours, blocks, l2, inj, stats, soft, viol>>

Next == EvReset \/ EvL2 \/ EvBlock \/ EvReorg \/ EvInject \/ EvSnap \/ Finish
Spec == Init /\ [][Next]_vars

HW == TLCSet(1, IF l > TLCGet(1) THEN l ELSE TLCGet(1))
Accepted == TLCGet(1) = Len(Trace) + 2
=============================================================================
