------------------------------ MODULE LastGERTrace ------------------------------
(* Property-level monitor for C16, evaluated by TLC on traces recorded from the real lastgersync stack (PP mode).

   It contains only what the property says:

     "A query for the first injected global exit root at or after L1 info index X returns a root that was injected on
      L2 in a processed block, has not been removed since, and has index at least X, and it returns one whenever such
      a root exists.  This holds however many L2 blocks are produced between two polls and across restarts."

   The monitor knows the L2 history (what was mined, what was reorged out), what the node was shown by its polls, and
   the node's own answers (GetLastProcessedBlock, GetFirstGERAfterL1InfoTreeIndex).  It knows nothing about cursors,
   ranges, channels or tables.

   Processed blocks.  P = the canonical blocks up to GetLastProcessedBlock.  When the node has been shown the tip by a
   poll since it (re)started, the chain has not changed since, and the node has come to rest (nothing in flight, it
   waits for its next poll), *every* canonical block up to the tip counts as processed: otherwise the blocks produced
   between two polls would not be reflected, however long one waits.

   Reorgs.  Between a reorg of the chain and the next look of the reorg detector the node cannot know; during that
   window only the fork-independent part is demanded (a known root, its own index, index >= X, injected at some time).

   Open points of the statement are left open: *which* qualifying root is returned (least index or other) is only
   noted (soft), never a violation.

   Known finding F2b (lastgersync/processor.go: a removal deletes the row for good, dropping the removing block does not
   bring it back).  A withheld answer is tagged kf = "F2b" when every qualifying root is in `undone`: it was inserted
   in a surviving block and a removal of that very root sat in a block (number already shown to the node) that was
   reorged out of the chain or lay at/after the block R from which the node was told to forget.  Nothing is excused
   here; the check decides what a tag means.

   Trace lines (ndjson), all consumed:
     {"ev":"cfg","id":I,"ng":N}                     new node on an empty database (starts a new trace); GER g has index g
     {"ev":"mine","n":B,"k":"none|ins|rem","g":G}   canonical block B produced
     {"ev":"reorg","from":F}                        canonical blocks >= F dropped (the new fork's blocks follow as mine)
     {"ev":"poll","tip":T}                          the node's poll was answered with block number T
     {"ev":"detect","notice":R}                     reorg detector compared its tracked blocks; R>0: node was told that
                                                    blocks >= R are gone and has acknowledged
     {"ev":"restart"}                               node stopped and started again on the same database
     {"ev":"q","lpb":L,"rest":b,"ans":[{"x":X,"found":b,"g":G,"idx":I},...]}   answers while the node is parked
     {"ev":"fatal",...}                             the node gave up (retry handler)
     {"ev":"fetch"|"hdr"|"track"|"drift"|"stuck"|"end", ...}   informational
*)
EXTENDS Integers, Sequences, FiniteSets, TLC, Json, IOUtils

Trace == ndJsonDeserialize(IOEnv.TRACE_FILE)

VARIABLES l,         \* next line
          t,         \* index of the current trace (number of cfg lines seen)
          ng,        \* GERs 1..ng
          canon,     \* canonical chain: canon[n] = [k, g]
          ever,      \* GERs inserted at some time on some fork
          pending,   \* the chain was reorged and the detector has not looked yet
          polled,    \* tip shown by the node's last poll since it (re)started / was told of a reorg (-1 = none)
          undone,    \* rows <<n, g>> whose removal sat in a block that was dropped afterwards (signature of F2b):
                     \* reorged out of the chain, or among the blocks >= R the node was told to forget
          remAt,     \* <<n, g>>: a block number n that carried, on some fork, the removal of g
          shown,     \* highest tip ever shown to the node by a poll
          viol       \* accumulated violations

vars == <<l, t, ng, canon, ever, pending, polled, undone, remAt, shown, viol>>

Tip == Len(canon)
Min(S) == CHOOSE x \in S : \A y \in S : x <= y

(* what is injected and not removed after the first n canonical blocks: set of <<block, g>> *)
RECURSIVE Fold(_, _)
Fold(c, n) == IF n = 0 THEN {}
              ELSE LET s == Fold(c, n - 1)
                       e == c[n]
                   IN IF e.k = "ins" THEN s \cup {<<n, e.g>>}
                      ELSE IF e.k = "rem" THEN {p \in s : p[2] # e.g}
                      ELSE s

Init ==
  /\ TLCSet(1, 0)
  /\ l = 1 /\ t = 0 /\ ng = 0 /\ canon = <<>> /\ ever = {} /\ pending = FALSE /\ polled = -1 /\ undone = {} /\ remAt = {} /\ shown = 0
  /\ viol = <<>>

Is(e) == l <= Len(Trace) /\ Trace[l].ev = e
V(kind, soft, kf, info) == [t |-> t, l |-> l, inv |-> kind, soft |-> soft, kf |-> kf, info |-> info]

EvCfg ==
  /\ Is("cfg")
  /\ t' = t + 1 /\ ng' = Trace[l].ng
  /\ canon' = <<>> /\ ever' = {} /\ pending' = FALSE /\ polled' = -1 /\ undone' = {} /\ remAt' = {} /\ shown' = 0
  /\ (viol = <<>> \/ PrintT(<<"VIOL", ToJson(viol)>>))      \* flushed per trace: keeps the monitor linear in the trace
  /\ viol' = <<>>
  /\ l' = l + 1

EvMine ==
  /\ Is("mine")
  /\ Trace[l].n = Tip + 1                 \* otherwise the trace is not a chain history: not consumable (infrastructure)
  /\ canon' = Append(canon, [k |-> Trace[l].k, g |-> Trace[l].g])
  /\ ever' = IF Trace[l].k = "ins" THEN ever \cup {Trace[l].g} ELSE ever
  /\ remAt' = IF Trace[l].k = "rem" THEN remAt \cup {<<Trace[l].n, Trace[l].g>>} ELSE remAt
  /\ l' = l + 1 /\ UNCHANGED <<t, ng, pending, polled, undone, shown, viol>>

EvReorg ==
  /\ Is("reorg")
  /\ LET f == Trace[l].from IN
     /\ f >= 1 /\ f <= Tip
     /\ canon' = SubSeq(canon, 1, f - 1)
     /\ undone' = {p \in undone : p[1] < f} \cup (Fold(canon, f - 1) \ Fold(canon, Tip))
  /\ pending' = TRUE
  /\ l' = l + 1 /\ UNCHANGED <<t, ng, ever, polled, remAt, shown, viol>>

EvPoll ==
  /\ Is("poll")
  /\ polled' = Trace[l].tip
  /\ shown' = IF Trace[l].tip > shown THEN Trace[l].tip ELSE shown
  /\ l' = l + 1 /\ UNCHANGED <<t, ng, canon, ever, pending, undone, remAt, viol>>

EvDetect ==
  /\ Is("detect")
  /\ pending' = FALSE
  /\ polled' = IF Trace[l].notice > 0 THEN -1 ELSE polled
  /\ LET R == Trace[l].notice
         keep == IF R - 1 < Tip THEN R - 1 ELSE Tip
     IN undone' = IF R = 0 THEN undone
                  ELSE {p \in undone : p[1] < R}
                       \cup {p \in {<<n, canon[n].g>> : n \in {m \in 1..keep : canon[m].k = "ins"}} :
                               \E q \in remAt : q[1] >= R /\ q[1] <= shown /\ q[2] = p[2]}
  /\ l' = l + 1 /\ UNCHANGED <<t, ng, canon, ever, remAt, shown, viol>>

EvRestart ==
  /\ Is("restart")
  /\ polled' = -1
  /\ l' = l + 1 /\ UNCHANGED <<t, ng, canon, ever, pending, undone, remAt, shown, viol>>

EvFatal ==
  /\ Is("fatal")
  /\ viol' = Append(viol, V("NodeGaveUp", FALSE, "", [msg |-> Trace[l].msg]))
  /\ l' = l + 1 /\ UNCHANGED <<t, ng, canon, ever, pending, polled, undone, remAt, shown>>

EvInfo ==
  /\ l <= Len(Trace) /\ Trace[l].ev \in {"fetch", "hdr", "track", "drift", "stuck", "end"}
  /\ l' = l + 1 /\ UNCHANGED <<t, ng, canon, ever, pending, polled, undone, remAt, shown, viol>>

(* ---- the property, one answer at a time ---- *)
Judge(a, P, atRest) ==
  LET X     == a.x
      live  == Fold(canon, P)                          \* injected in a processed block and not removed since
      cands == {p \in live : p[2] >= X}                \* ... with index at least X
      liveG == {p[2] : p \in live}
      ctx   == [x |-> X, processed |-> P, rest |-> atRest, got |-> IF a.found THEN a.g ELSE 0,
                qualifying |-> {p[2] : p \in cands}]
  IN
  IF pending
  THEN \* fork-independent part only
       IF ~a.found THEN <<>>
       ELSE IF a.g < 1 \/ a.g > ng THEN <<V("AnswerIsAnInjectedRoot", FALSE, "", ctx)>>
       ELSE (IF a.idx # a.g THEN <<V("AnswerCarriesItsOwnIndex", FALSE, "", ctx)>> ELSE <<>>)
            \o (IF a.g < X THEN <<V("AnswerIndexAtLeastX", FALSE, "", ctx)>> ELSE <<>>)
            \o (IF a.g \notin ever THEN <<V("AnswerIsAnInjectedRoot", FALSE, "", ctx)>> ELSE <<>>)
  ELSE IF a.found
  THEN IF a.g < 1 \/ a.g > ng THEN <<V("AnswerIsAnInjectedRoot", FALSE, "", ctx)>>
       ELSE (IF a.idx # a.g THEN <<V("AnswerCarriesItsOwnIndex", FALSE, "", ctx)>> ELSE <<>>)
            \o (IF a.g < X THEN <<V("AnswerIndexAtLeastX", FALSE, "", ctx)>> ELSE <<>>)
            \o (IF a.g \notin liveG
                THEN <<V(IF a.g \in {canon[n].g : n \in {m \in 1..P : canon[m].k = "ins"}}
                         THEN "AnswerNotRemovedSince" ELSE "AnswerInjectedInProcessedBlock", FALSE, "", ctx)>>
                ELSE <<>>)
            \o (IF a.g \in liveG /\ a.g >= X /\ a.g # Min({p[2] : p \in cands})
                THEN <<V("LeastIndexFirst", TRUE, "", ctx)>> ELSE <<>>)
  ELSE IF cands # {}
  THEN \* a qualifying root exists and none was returned
       <<V(IF atRest THEN "AnswerWheneverOneExistsAtRest" ELSE "AnswerWheneverOneExists", FALSE,
           IF cands \subseteq undone THEN "F2b" ELSE "", ctx)>>
  ELSE <<>>

RECURSIVE JudgeAll(_, _, _, _)
JudgeAll(ans, i, P, atRest) == IF i > Len(ans) THEN <<>> ELSE Judge(ans[i], P, atRest) \o JudgeAll(ans, i + 1, P, atRest)

EvQuery ==
  /\ Is("q")
  /\ LET atRest == Trace[l].rest /\ ~pending /\ polled = Tip
         lpb    == IF Trace[l].lpb > Tip THEN Tip ELSE Trace[l].lpb
         P      == IF atRest THEN Tip ELSE lpb
     IN viol' = viol \o JudgeAll(Trace[l].ans, 1, P, atRest)
  /\ l' = l + 1 /\ UNCHANGED <<t, ng, canon, ever, pending, polled, undone, remAt, shown>>

Finish ==
  /\ l = Len(Trace) + 1
  /\ PrintT(<<"VIOL", ToJson(viol)>>)
  /\ PrintT(<<"DONE", ToJson([lines |-> Len(Trace), traces |-> t])>>)
  /\ l' = l + 1 /\ UNCHANGED <<t, ng, canon, ever, pending, polled, undone, remAt, shown, viol>>

Next == EvCfg \/ EvMine \/ EvReorg \/ EvPoll \/ EvDetect \/ EvRestart \/ EvFatal \/ EvInfo \/ EvQuery \/ Finish
Spec == Init /\ [][Next]_vars

HW == TLCSet(1, IF l > TLCGet(1) THEN l ELSE TLCGet(1))
Accepted == TLCGet(1) = Len(Trace) + 2
=============================================================================
