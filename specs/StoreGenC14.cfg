\* generated by mkstorecfg.py - edge cover for C14
CONSTANTS
  Kind = "bridge"
  Fixed = TRUE
  FixedF11 = TRUE
  H = 3
  MaxBlocks = 3
  MaxEvents = 2
  MaxLeaves = 3
  MaxOps = 5
  Faults = {"reorg"}
  AllowGap = TRUE
  Dups = FALSE
  AllowRestart = FALSE
  AllowReorg = TRUE
  Rollups = {}
  ExitRoots = {}
INIT Init
NEXT Next
VIEW view
ACTION_CONSTRAINT Dump
CHECK_DEADLOCK FALSE
