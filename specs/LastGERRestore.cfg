\* design check of the repair rule for F2b: with rows restored when the removing block is reorged out the plain property holds
CONSTANTS
  MaxBlock = 5
  NG = 2
  Fixed = TRUE
  Variant = "tipblock"
  RestoreOnReorg = TRUE
  MaxRestarts = 1
  MaxReorgs = 1
  MaxDepth = 2
INIT Init
NEXT Next
VIEW view
INVARIANTS TypeOK RowsAreFold RowsAtRest QueryRight QueryAtRest NoFatal NoPhantom
CHECK_DEADLOCK FALSE
