\* generated by mkbridgeapicfg.sh - C12 exhaustive, joint histories, our rollup at position 1, 4 leaves, skipped verified batches included (thorough)
CONSTANTS
  H = 2
  MaxDeps = 2
  MaxL2 = 2
  MaxInfos = 4
  MaxBlocks = 4
  MaxVer = 2
  Ours = 2
  Others = {1}
  AllowSkipped = TRUE
  Variant = "code"
INIT Init
NEXT Next
INVARIANT Inv
CHECK_DEADLOCK FALSE
