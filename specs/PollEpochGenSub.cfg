\* behaviour export (edge cover) with a slow subscriber
CONSTANTS
  Ns = {1,2}
  Starts = {0,1}
  Ps = {0,99}
  Epochs = 3
  MaxPolls = 4
  MaxErrs = 0
  MaxInflight = 1
  Reorder = FALSE
  SlowSub = TRUE
INIT Init
NEXT Next
VIEW view
ACTION_CONSTRAINT Dump
CHECK_DEADLOCK FALSE
