\* generated by mkstorecfg.py - edge cover: rollup exit tree with rollups 1 and 3 (cousin positions), values returning to earlier ones
CONSTANTS
  Kind = "l1info"
  Fixed = TRUE
  FixedF11 = TRUE
  H = 2
  MaxBlocks = 4
  MaxEvents = 1
  MaxLeaves = 1
  MaxOps = 4
  Faults = {}
  AllowGap = FALSE
  Dups = FALSE
  AllowRestart = FALSE
  AllowReorg = FALSE
  Rollups = {1, 3}
  ExitRoots = {1, 2}
INIT Init
NEXT Next
VIEW view
ACTION_CONSTRAINT Dump
CHECK_DEADLOCK FALSE
