---------------------------------- MODULE Store ----------------------------------
(* Implementation-shaped specification of the SQLite stores ("processors") of aggkit:
     Kind = "bridge"  bridgesync/processor.go      (exit tree = AppendOnlyTree, halts on a deposit-count gap)
     Kind = "l1info"  l1infotreesync/processor*.go (L1 info tree = AppendOnlyTree, rollup exit tree = UpdatableTree,
                                                     halts on an announced-root mismatch)
   together with tree/appendonlytree.go, tree/updatabletree.go, tree/tree.go and db/tx.go.

   A store is driven by ONE goroutine (the EVMDriver), so ProcessBlock / Reorg / restart are sequential; each is one
   action here.  Inside ProcessBlock the statements of the SQL transaction are run one by one by the recursive operator
   Run; a fault parameter says which statement fails (or that the commit fails / the context is cancelled), so TLC
   explores "a fault at each individual statement in turn" as different values of one action parameter.

   What is modelled exactly as coded (these are the places where the code can go wrong):
     - the in-memory frontier of AppendOnlyTree (lastIndex, lastLeftCache): written IN PLACE while climbing, before the
       root/nodes are stored; rebuilt by initCache only when leaf.Index # lastIndex+1; rollback callbacks registered
       after a successful AddLeaf; callbacks run only if the SQL rollback itself succeeds (db/tx.go) - after a failed
       commit or a cancelled context database/sql answers ErrTxDone and NO callback runs;
     - Fixed = FALSE: the callback only decrements lastIndex (code before the repair, finding F1);
       Fixed = TRUE : the callback invalidates the frontier (lastIndex := -2), the repaired code;
     - the node table rht is content addressed and never cleaned by a reorg; roots are deleted by block number;
     - getLastRoot orders by (block_num, block_position), GetRootByIndex selects by position;
     - the halted flag is in memory only: set on ErrInvalidIndex (bridge) / V2 root mismatch (l1info), cleared only by a
       Reorg that deleted at least one block row, lost on restart;
     - l1info: leaf index = last stored leaf's position + 1 (read inside the tx), the leaf row is inserted BEFORE AddLeaf;
       VerifyBatches: zero exit root skipped, unchanged exit root skipped, UpsertLeaf walks the last root;
       the root table's primary key is the root HASH (finding F5: a rollup exit tree root that recurs cannot be stored).
*)
EXTENDS Merkle, TLC, Json

CONSTANTS Kind,            \* "bridge" | "l1info"
          Fixed,           \* model the code with (TRUE) / without (FALSE) the F1 repair
          FixedF11,        \* initCache assigns lastIndex together with the rebuilt frontier (TRUE, the repaired code) / before it
                           \* walks the nodes (FALSE, finding F11: a failed read leaves lastIndex valid over a stale frontier)
          MaxBlocks,       \* block numbers 1..MaxBlocks
          MaxEvents,       \* events per block 0..MaxEvents
          MaxLeaves,       \* bound on fresh leaf values over a behaviour
          MaxOps,          \* bound on the number of operations of a behaviour
          Faults,          \* subset of {"stmt", "commit", "ctx", "read", "reorg"}: which fault kinds are explored
          AllowGap,        \* bridge: deposits whose DepositCount skips one value (leads to the halted state)
          Dups,            \* bridge: a new deposit may repeat the content of an earlier one (the same leaf value at another index)
          AllowRestart, AllowReorg,
          Rollups, ExitRoots   \* l1info: rollup ids (1..n) and the pool of exit-root atoms (0 = the zero hash)

VARIABLES blk,       \* DB: sequence of committed blocks [num, evs]; evs = sequence of stored event records
          aroots,    \* DB: root rows of the append-only tree: set of [idx, root, b, p]
          rht,       \* DB: its node table (set of <<"n",l,r>>)
          uroots,    \* DB: root rows of the updatable tree (l1info): set of [idx, root, b, p]
          urht,      \* DB: its node table
          gers,      \* DB (Kind = "ger"): imported_global_exit_root rows: set of [b, x]; primary key = block number
          lost,      \* ghost (Kind = "ger"): GERs whose row was deleted by a removal event of a block that was reorged out
                     \*       afterwards while their insertion survived (finding F2b: Reorg cannot bring the row back)
          mem,       \* process memory: [lastIndex, cache, halted]
          nextLeaf,  \* environment: next fresh leaf atom
          reuse,     \* environment: leaf index -> atom of a leaf dropped by a reorg; the new fork may carry it again at the same
                     \*              index (the same transaction mined again), so re-stored tree nodes are partly duplicates
          nops,
          lastRes,   \* result of the last operation (observed by the driver)
          hist       \* operation history (behaviour export; hidden by VIEW)

vars == <<blk, aroots, rht, uroots, urht, gers, lost, mem, nextLeaf, reuse, nops, lastRes, hist>>
view == <<blk, aroots, rht, uroots, urht, gers, lost, mem, nextLeaf, reuse, nops, lastRes>>

FreshMem == [lastIndex |-> -2, cache |-> [h \in 0..(H - 1) |-> Junk], halted |-> FALSE]

Init ==
  /\ blk = <<>> /\ aroots = {} /\ rht = {} /\ uroots = {} /\ urht = {} /\ gers = {} /\ lost = {}
  /\ mem = FreshMem /\ nextLeaf = 1 /\ reuse = <<>> /\ nops = 0 /\ lastRes = "init" /\ hist = <<>>

-----------------------------------------------------------------------------
(* helpers over the DB *)
LastBlock == IF blk = <<>> THEN 0 ELSE blk[Len(blk)].num
Max(S)    == CHOOSE x \in S : \A y \in S : y <= x
(* leaf terms of the append-only tree in (block, pos) order, as stored in the event rows *)
RECURSIVE LeavesOfEvs(_)
LeavesOfEvs(evs) == IF evs = <<>> THEN <<>>
                    ELSE (IF Head(evs).t = "leaf" THEN <<Leaf(Head(evs).x)>> ELSE <<>>) \o LeavesOfEvs(Tail(evs))
RECURSIVE LeavesOf(_)
LeavesOf(bs) == IF bs = <<>> THEN <<>> ELSE LeavesOfEvs(Head(bs).evs) \o LeavesOf(Tail(bs))

(* getLastRoot: ORDER BY block_num DESC, block_position DESC LIMIT 1 *)
NoRoot == [none |-> TRUE]
LastRootOf(rs) == IF rs = {} THEN NoRoot
                  ELSE CHOOSE r \in rs : \A q \in rs : (q.b < r.b) \/ (q.b = r.b /\ q.p <= r.p)

(* initCache on the tx's view of the DB *)
InitCache(rs, nodes, m) ==
  LET lr == LastRootOf(rs) IN
  IF lr = NoRoot THEN [m EXCEPT !.lastIndex = -1, !.cache = [h \in 0..(H - 1) |-> Junk]]
  ELSE LET fr == InitFrontier(nodes, lr.idx, lr.root) IN
       IF FrontierNotFound(fr) THEN [err |-> TRUE]      \* lastIndex was already overwritten; unreachable: rht is never cleaned
       ELSE [m EXCEPT !.lastIndex = lr.idx, !.cache = fr]

-----------------------------------------------------------------------------
(* One ProcessBlock transaction.  acc = [ok, ar, nd, ur, und, m, cbs, out, stmt, halt]
     ar/nd/ur/und  the tx's view of the four tables, m the process memory (shared, NOT transactional),
     cbs number of registered rollback callbacks, out the event rows inserted so far, stmt the statement counter,
     failAt = the statement number at which the injected fault strikes (0 = none) *)

Stmt(acc, failAt) == \* account one storage statement; returns TRUE if it fails
  acc.stmt + 1 = failAt

AddLeafStep(acc, b, p, idx, x, failAt) ==
  LET m0 == IF idx # acc.m.lastIndex + 1 THEN InitCache(acc.ar, acc.nd, acc.m) ELSE acc.m IN
  IF acc.rinit /\ idx # acc.m.lastIndex + 1 /\ LastRootOf(acc.ar) # NoRoot
  THEN \* initCache: the last root was read, a node of the walk down to the frontier cannot be read
       [acc EXCEPT !.ok = FALSE, !.rinit = FALSE,
                   !.m = IF FixedF11 THEN acc.m ELSE [acc.m EXCEPT !.lastIndex = LastRootOf(acc.ar).idx]]
  ELSE IF "err" \in DOMAIN m0 THEN [acc EXCEPT !.ok = FALSE]
  ELSE IF idx # m0.lastIndex + 1
  THEN [acc EXCEPT !.ok = FALSE, !.m = m0, !.halt = (Kind = "bridge")]          \* ErrInvalidIndex
  ELSE LET c  == Climb(Leaf(x), idx, m0.cache)
           m1 == [m0 EXCEPT !.cache = c.cache]                                   \* frontier already overwritten ...
       IN IF Stmt(acc, failAt)                                                   \* ... when storeRoot / storeNodes fail
          THEN [acc EXCEPT !.ok = FALSE, !.m = m1, !.stmt = @ + 1]
          ELSE [acc EXCEPT !.ar = @ \cup {[idx |-> idx, root |-> c.root, b |-> b, p |-> p]},
                           !.nd = @ \cup c.nodes,
                           !.m = [m1 EXCEPT !.lastIndex = @ + 1],
                           !.cbs = @ + 1, !.stmt = @ + 1]

RowStep(acc, row, failAt) ==
  IF Stmt(acc, failAt) THEN [acc EXCEPT !.ok = FALSE, !.stmt = @ + 1]
  ELSE [acc EXCEPT !.out = Append(@, row), !.stmt = @ + 1]

(* l1info: position of the next leaf = last stored leaf + 1, read inside the tx *)
NextInfoIndex(bs, out) == Len(LeavesOf(bs)) + Len(LeavesOfEvs(out))

UpsertStep(acc, b, p, r, x, failAt) ==
  IF x = 0 THEN acc                                                              \* zero exit root: skipped
  ELSE LET lr   == LastRootOf(acc.ur)
           cur  == IF lr = NoRoot THEN <<"NotFound">> ELSE GetLeaf(acc.und, r - 1, lr.root)
           same == lr # NoRoot /\ cur = Leaf(x)
       IN IF same THEN acc                                                       \* unchanged exit root: skipped
          ELSE LET rootHash == IF lr = NoRoot THEN Z(H) ELSE lr.root
                   sib == GetSiblings(acc.und, r - 1, rootHash)
                   c   == UClimb(Leaf(x), r - 1, sib)
               IN IF Stmt(acc, failAt) THEN [acc EXCEPT !.ok = FALSE, !.stmt = @ + 1]
                  ELSE IF \E q \in acc.ur : q.root = c.root                     \* root table PRIMARY KEY (hash): finding F5
                  THEN [acc EXCEPT !.ok = FALSE, !.stmt = @ + 1, !.f5 = TRUE]
                  ELSE RowStep([acc EXCEPT !.ur = @ \cup {[idx |-> r - 1, root |-> c.root, b |-> b, p |-> p]},
                                           !.und = @ \cup c.nodes, !.stmt = @ + 1],
                               [t |-> "verify", r |-> r, x |-> x, rer |-> c.root, p |-> p], failAt)

EventStep(acc, b, p, e, failAt) ==
  CASE e.t = "leaf" /\ Kind = "bridge" ->
         LET a1 == AddLeafStep(acc, b, p, e.dc, e.x, failAt) IN
         IF a1.ok THEN RowStep(a1, [t |-> "leaf", x |-> e.x, idx |-> e.dc, p |-> p], failAt) ELSE a1
    [] e.t = "leaf" /\ Kind = "l1info" ->
         LET idx == NextInfoIndex(blk, acc.out)
             a1  == RowStep(acc, [t |-> "leaf", x |-> e.x, idx |-> idx, p |-> p], failAt) IN
         IF a1.ok THEN AddLeafStep(a1, b, p, idx, e.x, failAt) ELSE a1
    [] e.t = "other" -> RowStep(acc, [t |-> "other", p |-> p], failAt)
    [] e.t = "v2" ->   \* UpdateL1InfoTreeV2: announced root / leaf count against the last root
         LET lr == LastRootOf(acc.ar) IN
         IF lr = NoRoot THEN [acc EXCEPT !.ok = FALSE]
         ELSE IF e.good THEN acc ELSE [acc EXCEPT !.ok = FALSE, !.halt = TRUE]
    [] e.t = "verify" -> UpsertStep(acc, b, p, e.r, e.x, failAt)
    [] e.t = "ger" ->     \* lastgersync: INSERT INTO imported_global_exit_root (primary key block_num)
         IF Stmt(acc, failAt) \/ (\E r \in acc.gr : r.b = b) THEN [acc EXCEPT !.ok = FALSE, !.stmt = @ + 1]
         ELSE [acc EXCEPT !.gr = @ \cup {[b |-> b, x |-> e.x]}, !.out = Append(@, [t |-> "ger", x |-> e.x, p |-> p]), !.stmt = @ + 1]
    [] e.t = "gerrm" ->   \* DELETE FROM imported_global_exit_root WHERE global_exit_root = x
         IF Stmt(acc, failAt) THEN [acc EXCEPT !.ok = FALSE, !.stmt = @ + 1]
         ELSE [acc EXCEPT !.gr = {r \in @ : r.x # e.x}, !.out = Append(@, [t |-> "gerrm", x |-> e.x, p |-> p]), !.stmt = @ + 1]

RECURSIVE Run(_, _, _, _, _)
Run(acc, b, evs, p, failAt) ==
  IF ~acc.ok \/ evs = <<>> THEN acc
  ELSE Run(EventStep(acc, b, p, Head(evs), failAt), b, Tail(evs), p + 1, failAt)

(* number of storage statements of a fault-free run of the block: used to enumerate fault points *)
NStmts(b, evs) ==
  LET a0 == [ok |-> TRUE, ar |-> aroots, nd |-> rht, ur |-> uroots, und |-> urht, m |-> mem, cbs |-> 0, out |-> <<>>,
             stmt |-> 1, halt |-> FALSE, f5 |-> FALSE, gr |-> gers, rinit |-> FALSE]
  IN Run(a0, b, evs, 0, 0).stmt

(* does the block's transaction rebuild the frontier from a stored root? (only then can a read of the rebuild fail) *)
RebuildsFrontier(b, evs) ==
  LET a0 == [ok |-> TRUE, ar |-> aroots, nd |-> rht, ur |-> uroots, und |-> urht, m |-> mem, cbs |-> 0, out |-> <<>>,
             stmt |-> 1, halt |-> FALSE, f5 |-> FALSE, gr |-> gers, rinit |-> TRUE]
  IN ~mem.halted /\ ~Run(a0, b, evs, 0, 0).rinit

Rollback(m, cbs) == IF cbs = 0 THEN m
                    ELSE IF Fixed THEN [m EXCEPT !.lastIndex = -2] ELSE [m EXCEPT !.lastIndex = @ - cbs]

(* ProcessBlock(b, evs) with fault f = [kind, at] *)
Process(b, evs, f) ==
  /\ nops < MaxOps
  /\ nops' = nops + 1
  /\ UNCHANGED lost
  /\ IF mem.halted
     THEN /\ lastRes' = "inconsistent" /\ UNCHANGED <<blk, aroots, rht, uroots, urht, gers, mem>>
     ELSE
       \* "read": a SELECT in front of write f.at fails (or that write itself) - for the design the same as a failing write
       LET failAt == IF f.kind \in {"stmt", "ctx", "read"} THEN f.at ELSE 0
           a0 == [ok |-> (failAt # 1), ar |-> aroots, nd |-> rht, ur |-> uroots, und |-> urht, m |-> mem, cbs |-> 0,
                  out |-> <<>>, stmt |-> 1, halt |-> FALSE, f5 |-> FALSE, gr |-> gers,  \* statement 1 = INSERT INTO block
                  rinit |-> (f.kind = "readinit")]     \* a read of the first frontier rebuild of this transaction fails
           a  == Run(a0, b, evs, 0, failAt)
       IN IF a.ok /\ f.kind # "commit"
          THEN /\ blk' = Append(blk, [num |-> b, evs |-> a.out])
               /\ aroots' = a.ar /\ rht' = a.nd /\ uroots' = a.ur /\ urht' = a.und /\ gers' = a.gr
               /\ mem' = a.m /\ lastRes' = "ok"
          ELSE /\ UNCHANGED <<blk, aroots, rht, uroots, urht, gers>>
               \* stmt fault / logical error: SQL rollback succeeds -> callbacks run.  commit failure or cancelled
               \* context: Rollback() = ErrTxDone -> no callback runs.
               /\ mem' = LET m1 == IF f.kind \in {"commit", "ctx"} THEN a.m ELSE Rollback(a.m, a.cbs)
                         IN [m1 EXCEPT !.halted = a.halt]
               /\ lastRes' = IF a.halt THEN "inconsistent"
                             ELSE IF a.f5 THEN "errorF5"                 \* known finding F5: the block can never be stored
                             ELSE IF f.kind = "none" THEN "errorNoFault" ELSE "error"
  \* the model's own prediction of ProcessBlock's answer travels with the exported behaviour (conformance of this
  \* specification with the code is measured on it: checks/store_common.py, evidence field model_conformance)
  /\ hist' = Append(hist, [op |-> "process", num |-> b, evs |-> evs, fault |-> f, exp |-> lastRes'])

RemovesGer(evs, x) == \E i \in DOMAIN evs : evs[i].t = "gerrm" /\ evs[i].x = x
InsertsGer(evs, x) == \E i \in DOMAIN evs : evs[i].t = "ger" /\ evs[i].x = x
GerInsertedBefore(b) == { x \in 1..MaxLeaves : \E i \in DOMAIN blk : blk[i].num < b /\ InsertsGer(blk[i].evs, x) }

Reorg(b) ==
  /\ nops < MaxOps
  /\ nops' = nops + 1
  /\ hist' = Append(hist, [op |-> "reorg", from |-> b, fault |-> [kind |-> "none", at |-> 0]])
  /\ LET keep == SelectSeq(blk, LAMBDA x : x.num < b) IN
     /\ blk' = keep
     /\ aroots' = {r \in aroots : r.b < b}
     /\ uroots' = {r \in uroots : r.b < b}
     /\ gers' = {r \in gers : r.b < b}                   \* ON DELETE CASCADE from block; removed rows do not come back
     /\ lost' = lost \cup { x \in GerInsertedBefore(b) : \E i \in DOMAIN blk : blk[i].num >= b /\ RemovesGer(blk[i].evs, x) }
     /\ mem' = IF Len(keep) < Len(blk) THEN [mem EXCEPT !.halted = FALSE] ELSE mem
  /\ lastRes' = "ok"
  /\ UNCHANGED <<rht, urht>>

(* a Reorg whose transaction fails (a fault at one of its DELETE statements, or at commit): everything is rolled back,
   and the halted flag must stay as it is - UnhaltIfAffectedRows runs only after a successful commit *)
ReorgFail(b, k) ==
  /\ nops < MaxOps
  /\ nops' = nops + 1
  /\ hist' = Append(hist, [op |-> "reorg", from |-> b, fault |-> [kind |-> "stmt", at |-> k]])
  /\ lastRes' = "error"
  /\ UNCHANGED <<blk, aroots, rht, uroots, urht, gers, lost, mem>>

Restart ==
  /\ UNCHANGED <<gers, lost>>
  /\ nops < MaxOps
  /\ nops' = nops + 1
  /\ hist' = Append(hist, [op |-> "restart"])
  /\ mem' = FreshMem
  /\ lastRes' = "ok"
  /\ UNCHANGED <<blk, aroots, rht, uroots, urht>>

-----------------------------------------------------------------------------
(* the environment: which blocks can arrive *)
DepositCount == Len(LeavesOf(blk))

(* event shapes; leaf atoms are assigned fresh, in order *)
Shapes == IF Kind = "ger" THEN {<<"ger">>} \cup {<<"gerrm", x>> : x \in 1..MaxLeaves}
                                \* a GER that is already stored is reported again by a later block (the FEP downloader reports the
                                \* greatest injected GER with every L2 block; PP: injected again): one more row, same GER
                                \cup {<<"gerD", x>> : x \in 1..MaxLeaves}
          ELSE IF Kind = "bridge"
          THEN {<<"leaf">>, <<"leafR">>, <<"other">>} \cup (IF AllowGap THEN {<<"gap">>, <<"back">>} ELSE {})
               \cup (IF Dups THEN {<<"leafD", k>> : k \in 1..MaxLeaves} ELSE {})
          ELSE {<<"leaf">>, <<"leafR">>, <<"v2good">>, <<"v2bad">>} \cup {<<"verify", r, x>> : r \in Rollups, x \in ExitRoots}

RECURSIVE Concrete(_, _, _)
Concrete(shapes, nl, dc) ==   \* turn a sequence of shapes into events with fresh leaf atoms / deposit counts
  IF shapes = <<>> THEN <<>>
  ELSE LET s == Head(shapes)[1] IN
       IF s = "ger" THEN <<[t |-> "ger", x |-> nl]>> \o Concrete(Tail(shapes), nl + 1, dc)
       ELSE IF s = "gerrm" THEN <<[t |-> "gerrm", x |-> Head(shapes)[2]]>> \o Concrete(Tail(shapes), nl, dc)
       ELSE IF s = "gerD" THEN <<[t |-> "ger", x |-> Head(shapes)[2]]>> \o Concrete(Tail(shapes), nl, dc)
       ELSE IF s = "leaf" THEN <<[t |-> "leaf", x |-> nl, dc |-> dc]>> \o Concrete(Tail(shapes), nl + 1, dc + 1)
       ELSE IF s = "leafR" THEN <<[t |-> "leaf", x |-> reuse[dc], dc |-> dc]>> \o Concrete(Tail(shapes), nl, dc + 1)
       ELSE IF s = "leafD" THEN <<[t |-> "leaf", x |-> Head(shapes)[2], dc |-> dc]>> \o Concrete(Tail(shapes), nl, dc + 1)
       ELSE IF s = "gap" THEN <<[t |-> "leaf", x |-> nl, dc |-> dc + 1]>> \o Concrete(Tail(shapes), nl + 1, dc + 2)
       \* a deposit count that goes backwards (a log delivered twice, a reorg the detector has not reported yet)
       ELSE IF s = "back" THEN <<[t |-> "leaf", x |-> nl, dc |-> dc - 1]>> \o Concrete(Tail(shapes), nl + 1, dc)
       ELSE IF s = "other" THEN <<[t |-> "other"]>> \o Concrete(Tail(shapes), nl, dc)
       ELSE IF s = "v2good" THEN <<[t |-> "v2", good |-> TRUE]>> \o Concrete(Tail(shapes), nl, dc)
       ELSE IF s = "v2bad" THEN <<[t |-> "v2", good |-> FALSE]>> \o Concrete(Tail(shapes), nl, dc)
       ELSE <<[t |-> "verify", r |-> Head(shapes)[2], x |-> Head(shapes)[3]]>> \o Concrete(Tail(shapes), nl, dc)

NLeaves(shapes) == Cardinality({i \in DOMAIN shapes : shapes[i][1] \in {"leaf", "gap", "back", "ger"}})   \* fresh atoms consumed (leafR consumes none)

(* shapes that cannot occur in the current state are left out before the sequences are enumerated *)
ShapesNow == { s \in Shapes : /\ (s[1] = "leafR" => reuse # <<>>)
                              /\ (s[1] \in {"leafD", "gerrm"} => s[2] < nextLeaf)
                              /\ (s[1] = "gerD" => \E r \in gers : r.x = s[2]) }
ShapeSeqs == UNION {[1..n -> ShapesNow] : n \in 0..MaxEvents}

DoProcess ==
  \E ss \in ShapeSeqs :
    /\ nextLeaf + NLeaves(ss) - 1 <= MaxLeaves
    /\ LastBlock < MaxBlocks
    \* A deposit-count gap is an inconsistent chain; it is explored as a way to reach the halted state (C14) from states
    \* whose frontier index is in sync with the DB.  (After a failed commit / cancelled context lastIndex is ahead of
    \* the DB until the next AddLeaf; a gap that happens to match it would be accepted silently - detection completeness
    \* is not claimed by any listed property; recorded as information in DESIGN.md section 6.)
    /\ (\E i \in DOMAIN ss : ss[i][1] \in {"gap", "back"}) => mem.lastIndex \in {-2, DepositCount - 1}
    /\ \A i \in DOMAIN ss : ss[i][1] = "back" =>
          DepositCount + Cardinality({j \in 1..(i - 1) : ss[j][1] \in {"leaf", "leafR", "leafD"}}) >= 1
    \* a V2 announcement only makes sense after a leaf exists (the contract emits it after UpdateL1InfoTree)
    /\ \A i \in DOMAIN ss : ss[i][1] \in {"v2good", "v2bad"} =>
          (aroots # {} \/ \E j \in 1..(i - 1) : ss[j][1] = "leaf")
    /\ \A i \in DOMAIN ss : ss[i][1] = "gerrm" => ss[i][2] < nextLeaf      \* only a GER that was injected can be removed
    \* a dropped leaf can only be mined again at the index it had
    /\ \A i \in DOMAIN ss : ss[i][1] = "leafR" =>
          (DepositCount + Cardinality({j \in 1..(i - 1) : ss[j][1] \in {"leaf", "leafR", "leafD", "gap", "back"}})) \in DOMAIN reuse
    /\ ~(\E i, j \in DOMAIN ss : ss[i][1] \in {"gap", "back"} /\ ss[j][1] \in {"leafR", "leafD"})
    /\ \A i \in DOMAIN ss : ss[i][1] = "leafD" => ss[i][2] < nextLeaf       \* only the content of a deposit that existed
    /\ LET b   == LastBlock + 1
           evs == Concrete(ss, nextLeaf, DepositCount)
           n   == NStmts(b, evs)
       IN /\ \E f \in {[kind |-> "none", at |-> 0]}
                   \cup (IF "stmt" \in Faults THEN {[kind |-> "stmt", at |-> k] : k \in 1..n} ELSE {})
                   \cup (IF "ctx" \in Faults THEN {[kind |-> "ctx", at |-> k] : k \in 1..n} ELSE {})
                   \cup (IF "read" \in Faults THEN {[kind |-> "read", at |-> k] : k \in 1..n} ELSE {})
                   \cup (IF "read" \in Faults /\ Kind # "ger" /\ RebuildsFrontier(b, evs) THEN {[kind |-> "readinit", at |-> 0]} ELSE {})
                   \cup (IF "commit" \in Faults THEN {[kind |-> "commit", at |-> 0]} ELSE {}) :
               Process(b, evs, f)
          \* a block that was not stored is retried with the same content: leaf atoms are consumed only on success
          /\ nextLeaf' = IF lastRes' = "ok" THEN nextLeaf + NLeaves(ss) ELSE nextLeaf
          /\ reuse' = reuse

DroppedLeaves(b) ==   \* leaf index -> atom, for the leaves of the blocks >= b
  LET keepN == Len(LeavesOf(SelectSeq(blk, LAMBDA x : x.num < b)))
      all == LeavesOf(blk)
  IN [i \in keepN..(Len(all) - 1) |-> all[i + 1][2]]
DoReorg   == AllowReorg /\ \E b \in 1..(MaxBlocks + 1) :
                \/ (Reorg(b) /\ UNCHANGED nextLeaf /\ reuse' = IF Kind = "ger" THEN reuse ELSE DroppedLeaves(b) @@ reuse)
                \/ ("reorg" \in Faults /\ \E k \in 1..(IF Kind = "l1info" THEN 3 ELSE IF Kind = "bridge" THEN 2 ELSE 1) :
                      (ReorgFail(b, k) /\ UNCHANGED <<nextLeaf, reuse>>))
DoRestart == AllowRestart /\ Restart /\ UNCHANGED <<nextLeaf, reuse>>

Next == DoProcess \/ DoReorg \/ DoRestart
Spec == Init /\ [][Next]_vars

-----------------------------------------------------------------------------
(* Properties of the design (C01 C04 C07 C08 C11 C14), all about what queries would answer in this state *)

Leaves == LeavesOf(blk)

(* C01/C11/C07/C04: exactly one root row per stored leaf, and it is the reference root of the prefix *)
RootsMirror ==
  /\ {r.idx : r \in aroots} = 0..(Len(Leaves) - 1)
  /\ Cardinality(aroots) = Len(Leaves)
  /\ \A r \in aroots : r.root = Root(SubSeq(Leaves, 1, r.idx + 1))

(* C07 NoHole + stored leaf indexes are consecutive in (block,pos) order *)
RECURSIVE IdxOfEvs(_)
IdxOfEvs(evs) == IF evs = <<>> THEN <<>>
                 ELSE (IF Head(evs).t = "leaf" THEN <<Head(evs).idx>> ELSE <<>>) \o IdxOfEvs(Tail(evs))
RECURSIVE IdxOf(_)
IdxOf(bs) == IF bs = <<>> THEN <<>> ELSE IdxOfEvs(Head(bs).evs) \o IdxOf(Tail(bs))
ConsecutiveIdx == \A i \in DOMAIN IdxOf(blk) : IdxOf(blk)[i] = i - 1
BlocksIncrease == \A i \in 1..(Len(blk) - 1) : blk[i].num < blk[i + 1].num

(* C08: every (recorded root, covered position): the proof walked from rht folds to the root, leaf is the stored one *)
ProofsVerify ==
  \A r \in aroots : \A p \in 0..r.idx :
     LET pr == GetSiblings(rht, p, r.root) IN
     /\ p + 1 <= Len(Leaves)
     /\ Fold(Leaves[p + 1], pr, p) = r.root
     /\ GetLeaf(rht, p, r.root) = Leaves[p + 1]

(* l1info: rollup exit tree = last non-zero, changed exit root per rollup; each recorded root is the reference root *)
RECURSIVE VerifiesOfEvs(_)
VerifiesOfEvs(evs) == IF evs = <<>> THEN <<>>
                      ELSE (IF Head(evs).t = "verify" THEN <<Head(evs)>> ELSE <<>>) \o VerifiesOfEvs(Tail(evs))
RECURSIVE VerifiesOf(_)
VerifiesOf(bs) == IF bs = <<>> THEN <<>> ELSE VerifiesOfEvs(Head(bs).evs) \o VerifiesOf(Tail(bs))
RECURSIVE UState(_, _)
UState(vs, n) == IF n = 0 THEN <<>> ELSE LET f == UState(vs, n - 1) IN (vs[n].r - 1 :> Leaf(vs[n].x)) @@ f
RollupTreeMirror ==
  LET vs == VerifiesOf(blk) IN
  /\ \A n \in DOMAIN vs : vs[n].rer = URoot(UState(vs, n))
  /\ {q.root : q \in uroots} = {vs[n].rer : n \in DOMAIN vs}
UProofsVerify ==
  LET vs == VerifiesOf(blk) IN
  \A n \in DOMAIN vs : \A k \in DOMAIN UState(vs, n) :
     /\ Fold(UState(vs, n)[k], GetSiblings(urht, k, vs[n].rer), k) = vs[n].rer
     /\ GetLeaf(urht, k, vs[n].rer) = UState(vs, n)[k]

(* C14 (design level): the store never advances while halted - by construction of Process; and halted is cleared only
   by a row-deleting reorg or lost with the process *)
HaltedStops == [][mem.halted /\ mem'.halted => blk' = blk \/ Len(blk') < Len(blk)]_vars

(* a fault-free ProcessBlock of a consistent block succeeds (otherwise the history is not mirrored: C11/C07).
   "errorF5" is the known finding F5 (DESIGN.md 3.6: narrow, named excuse; TLC reports how often it is reached). *)
FaultFreeSucceeds == lastRes # "errorNoFault"

(* injected-GER store: the rows are the GERs inserted and not removed since, in the surviving history - except those lost
   by finding F2b (narrow, named excuse: the removal was in a reorged-out block and the insertion survived) *)
RECURSIVE LiveGersOfEvs(_, _)
LiveGersOfEvs(evs, live) == IF evs = <<>> THEN live
                            ELSE LiveGersOfEvs(Tail(evs), IF Head(evs).t = "ger" THEN live \cup {Head(evs).x}
                                                          ELSE IF Head(evs).t = "gerrm" THEN live \ {Head(evs).x} ELSE live)
RECURSIVE LiveGers(_, _)
LiveGers(bs, live) == IF bs = <<>> THEN live ELSE LiveGers(Tail(bs), LiveGersOfEvs(Head(bs).evs, live))
GerMirror == LET want == LiveGers(blk, {}) have == {r.x : r \in gers} IN
             /\ have \subseteq want
             /\ (want \ have) \subseteq lost
             /\ \A r, q \in gers : r.b = q.b => r = q
InvGer == GerMirror /\ BlocksIncrease /\ FaultFreeSucceeds

Inv == RootsMirror /\ FaultFreeSucceeds /\ ConsecutiveIdx /\ BlocksIncrease /\ ProofsVerify
InvL1 == Inv /\ RollupTreeMirror /\ UProofsVerify

-----------------------------------------------------------------------------
Dump == PrintT(<<"CASE", ToJson([kind |-> Kind, ops |-> hist'])>>)
=============================================================================
