\* generated by mkaggcfg.py - C13: headers without prev LER, retry at epoch
CONSTANTS
  MaxBlocks = 3
  MaxBridges = 1
  MaxCerts = 3
  MaxSteps = 40
  RetryImm = FALSE
  MaxCertBlocks = 0
  CallFailures = TRUE
  Crashes = {"before_submit", "after_submit", "after_store"}
  StoreFaults = FALSE
  LoseDB = TRUE
  HeaderHasPrev = FALSE
  FixedF4 = "v2"
  Mode = "pp"
INIT Init
NEXT Next
VIEW view
INVARIANT C02
INVARIANT F4Free
INVARIANT NeverRefuses
CHECK_DEADLOCK FALSE
