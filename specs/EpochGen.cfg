\* behaviour export (edge cover) for replay into the real notifier
CONSTANTS
  Ns = {1,2,3}
  Starts = {0,1,7}
  Ps = {0,1,33,34,50,66,67,99}
  Epochs = 3
  FeedStart = TRUE
INIT Init
NEXT Next
VIEW view
ACTION_CONSTRAINT Dump
CHECK_DEADLOCK FALSE
