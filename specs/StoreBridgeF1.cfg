\* generated by mkstorecfg.py - code before the F1 repair: TLC must find the stale-frontier counterexample
CONSTANTS
  Kind = "bridge"
  Fixed = FALSE
  H = 3
  MaxBlocks = 3
  MaxEvents = 2
  MaxLeaves = 5
  MaxOps = 5
  Faults = {"stmt", "ctx", "commit"}
  AllowGap = TRUE
  Dups = FALSE
  AllowRestart = TRUE
  AllowReorg = TRUE
  Rollups = {}
  ExitRoots = {}
INIT Init
NEXT Next
VIEW view
INVARIANT Inv
PROPERTY HaltedStops
CHECK_DEADLOCK FALSE
